"""Fresh-interpreter worker for C17 (and reused by C20-style jobs): executes a parse history read
as JSON from stdin and prints JSON results.  Run as:  python -S cpverif/worker_c17.py

job = {"repo": path, "texts": [...], "ops": [op, ...], "want_obs": bool}
op  = ["parse", text_index, selection|null]
    | ["threads", [[text_index, selection|null], ...], "os"|"coop", schedule]
selection = list of header names; schedule = [[pick, run_length], ...]
"""
import io
import json
import os
import sys
import threading

HERE = os.path.dirname(os.path.abspath(__file__))
sys.path.insert(0, os.path.dirname(HERE))


def main():
    job = json.load(sys.stdin)
    repo = job["repo"]
    sys.path.insert(0, repo)
    import logging
    import chartparse.chart  # noqa: F401
    from chartparse.chart import Chart
    from chartparse.instrument import Difficulty, Instrument
    logging.getLogger("chartparse").propagate = False
    logging.getLogger("chartparse").addHandler(logging.NullHandler())
    from cpverif.observe import observation
    from cpverif.spec import HEADERS
    libdir = os.path.join(repo, "chartparse") + os.sep
    texts = job["texts"]
    first = {}

    def sel_pairs(sel):
        if sel is None:
            return None
        return [(Instrument[HEADERS[h][0]], Difficulty[HEADERS[h][1]]) for h in sel]

    def do_parse(ti, sel):
        try:
            chart = Chart.from_file(io.StringIO(texts[ti]), want_tracks=sel_pairs(sel))
        except Exception as e:  # noqa: BLE001
            return {"ok": False, "exc": [type(e).__name__, str(e)]}, None
        # besides the (order-insensitive) observation: what iteration and rendering expose.  Which order
        # a mapping iterates in is not promised, but it must be a function of the text and selection --
        # not of the process (hash salt), the history or the schedule.
        order = [[i.name, [d.name for d in inner]] for i, inner in chart.instrument_tracks.items()]
        rendered = [str(chart), repr(chart)]
        return {"ok": True, "obs": observation(chart), "order": order,
                "rendered": [len(rendered[0]), len(rendered[1]), rendered[0][:4000], rendered[1][:4000]]}, chart

    def finish(res, chart, ti, sel):
        key = json.dumps([ti, sel])
        if chart is not None:
            if key in first:
                res["eq_first"] = bool(chart == first[key]) and not (chart != first[key])
            else:
                first[key] = chart
        return res

    class Coop:
        def __init__(self, n, schedule):
            self.cv = threading.Condition()
            self.alive = [True] * n
            self.sched = schedule or [[0, 1]]
            self.pos = 0
            self.current = self.sched[0][0] % n
            self.budget = max(1, self.sched[0][1])
            self.pos = 1
            self.switches = 0
            self.points = 0

        def _next(self):
            alive = [i for i, a in enumerate(self.alive) if a]
            if not alive:
                return
            pick, run = self.sched[self.pos % len(self.sched)]
            self.pos += 1
            self.current = alive[pick % len(alive)]
            self.budget = max(1, run)
            self.cv.notify_all()

        def run(self, me, fn):
            def local(frame, event, arg):
                if event == "line":
                    with self.cv:
                        self.points += 1
                        self.budget -= 1
                        if self.budget <= 0:
                            self._next()
                            if self.current != me:
                                self.switches += 1
                            while self.current != me:
                                self.cv.wait(5.0)
                return local

            def glob(frame, event, arg):
                if event == "call" and frame.f_code.co_filename.startswith(libdir):
                    return local
                return None

            with self.cv:
                while self.current != me:
                    self.cv.wait(5.0)
            sys.settrace(glob)
            try:
                return fn()
            finally:
                sys.settrace(None)
                with self.cv:
                    self.alive[me] = False
                    if self.current == me:
                        self._next()

    import shutil
    import tempfile
    from pathlib import Path
    wd = os.environ.get("CPV_WORKDIR") or None
    if wd:
        os.makedirs(wd, exist_ok=True)
    scratch = tempfile.mkdtemp(prefix="c17_", dir=wd)

    def do_parse_path(ti, sel, slot):
        # the text is written to one of a few fixed paths (overwriting what was there) with a fixed
        # modification time, as an archive extraction or rsync -t would leave it, and read by path
        path = os.path.join(scratch, f"slot{slot}.chart")
        with open(path, "w", encoding="utf-8", newline="") as f:
            f.write(texts[ti])
        os.utime(path, ns=(1_600_000_000_000_000_000, 1_600_000_000_000_000_000))
        try:
            chart = Chart.from_filepath(Path(path), want_tracks=sel_pairs(sel))
        except Exception as e:  # noqa: BLE001
            return {"ok": False, "exc": [type(e).__name__, str(e)]}, None
        order = [[i.name, [d.name for d in inner]] for i, inner in chart.instrument_tracks.items()]
        rendered = [str(chart), repr(chart)]
        return {"ok": True, "obs": observation(chart), "order": order,
                "rendered": [len(rendered[0]), len(rendered[1]), rendered[0][:4000], rendered[1][:4000]]}, chart

    out = []
    for op in job["ops"]:
        if op[0] == "parse":
            res, chart = do_parse(op[1], op[2])
            out.append(finish(res, chart, op[1], op[2]))
        elif op[0] == "parse_path":
            res, chart = do_parse_path(op[1], op[2], op[3])
            out.append(finish(res, chart, op[1], op[2]))
        elif op[0] == "threads":
            items, mode, schedule = op[1], op[2], op[3]
            n = len(items)
            results = [None] * n
            charts = [None] * n
            stats = {}
            if mode == "coop":
                coop = Coop(n, schedule)

                def body(i):
                    ti, sel = items[i]
                    results[i], charts[i] = coop.run(i, lambda: do_parse(ti, sel))
            else:
                old = sys.getswitchinterval()
                sys.setswitchinterval(1e-6)
                barrier = threading.Barrier(n)

                def body(i):
                    ti, sel = items[i]
                    barrier.wait()
                    results[i], charts[i] = do_parse(ti, sel)
            ths = [threading.Thread(target=body, args=(i,)) for i in range(n)]
            for t in ths:
                t.start()
            for t in ths:
                t.join()
            if mode == "coop":
                stats = {"points": coop.points, "switches": coop.switches}
            else:
                sys.setswitchinterval(old)
            out.append({"threads": [finish(results[i], charts[i], items[i][0], items[i][1])
                                    for i in range(n)], "stats": stats})
        elif op[0] == "forget":
            # the client lets go of every chart it has parsed so far (their objects are released)
            first.clear()
            res = chart = None
            import gc
            gc.collect()
            out.append({"forgot": True})
        else:
            raise SystemExit(f"unknown op {op}")
    shutil.rmtree(scratch, ignore_errors=True)
    json.dump({"results": out}, sys.stdout)


if __name__ == "__main__":
    main()
