"""Helpers shared by the instrument-section checks (C02-C05): render one section, parse the whole
chart through Chart.from_file, fetch the track and compare aspects of its note events with the
model (cpverif.model.expected_notes)."""
from __future__ import annotations

import zlib

from cpverif import spec as S
from cpverif.lib import L


_SONG_EXTRAS = ['Offset = 5', 'Player2 = rhythm', 'Difficulty = 3', 'Name = "end"', 'Genre = "rock"', 'Offset = 0.25',
                'Player2 = bass', 'PreviewStart = 30', 'MediaType = "cd"', 'Charter = "N 5 0"', 'Year = ", 2018"',
                'MusicStream = "song.ogg"', 'PreviewEnd = 99999', 'Artist = "S 2 100"', 'Album = "Resolution = 3"',
                'HopoFrequency = 170', 'hopo_frequency = 1', 'EighthNoteHopo = 1', 'FiveLaneDrums = 1',
                'SustainCutoffThreshold = 64', 'MultiplierNote = 116', 'EndEvents = 1', 'Delay = 500',
                'StarPowerNote = 103', 'ProDrums = True', 'Difficulty = 0']
_TS_FORMS = ["TS 3", "TS 6 3", "TS 4 2", "TS 7 3", "TS 1 0", "TS 12 3", "TS 5 2", "TS 2 1"]


def _surroundings(res: int, sections: dict[str, list[str]], extra: int) -> tuple[list[str], list[str]]:
    """Metadata fields, time signatures and anchors: things a chart usually carries and that say nothing
    about what an instrument section contains.  A deterministic function of ``extra`` and the sections."""
    if not extra:
        return [], []
    k = extra
    song = [_SONG_EXTRAS[(k + 5 * j) % len(_SONG_EXTRAS)] for j in range((k >> 3) % 4)]
    song = [x for i, x in enumerate(song) if x.split(" ", 1)[0] not in {y.split(" ", 1)[0] for y in song[:i]}]
    ticks = sorted({int(l.split(" ", 1)[0]) for body in sections.values() for l in body[:60]
                    if l[:1].isdigit() and l.split(" ", 1)[0].isdigit()})
    sync: list[str] = []
    if ticks and (k >> 5) % 3:
        picks = sorted({ticks[(k >> 7) % len(ticks)], ticks[len(ticks) // 2], ticks[-1]})[: 1 + (k >> 9) % 3]
        sync += [f"{t} = {_TS_FORMS[((k >> 11) + j) % len(_TS_FORMS)]}" for j, t in enumerate(picks) if t > 0]
        if (k >> 13) % 2:
            sync.append(f"{picks[0]} = A {(k >> 4) % 10 ** 7}")
    return song, sync


def chart_text(res: int, tempo, sections: dict[str, list[str]], events=(), fmt: int = 0, strays=(),
               extra: int = 0) -> str:
    # ``strays``: lines of the instrument section repeated verbatim in [SyncTrack] and [Events], where
    # they are unparsable noise (what a line means depends on its section, not on its text)
    strays = list(strays)
    song, sync = _surroundings(res, sections, extra)
    pos = (extra >> 1) % (len(song) + 1)
    secs = [("Song", song[:pos] + [f"Resolution = {res}"] + song[pos:]),
            ("SyncTrack", ["0 = TS 4"] + [x for x in sync if " = TS " in x] + [f"{t} = B {n}" for t, n in tempo]
             + [x for x in sync if " = A " in x] + strays[:2]),
            ("Events", strays[1:] + [S.event_line(e) for e in events])]
    secs += [(h, body) for h, body in sections.items()]
    if not fmt:
        return S.render_sections(secs)
    out: list[str] = []
    for name, body in secs:
        out += [f"[{name}]", "{"] + [S.format_line(b, fmt, i, name) for i, b in enumerate(body)] + ["}"]
    return "\n".join(out) + "\n"


def get_track(chart, header: str):
    iname, dname = S.HEADERS[header]
    return chart.instrument_tracks[L.Instrument[iname]][L.Difficulty[dname]]


def _decoys(header: str, lines: list[str], mode: int) -> dict[str, list[str]]:
    """Other instrument sections around the one under test (state must not travel from one track to
    the next).  mode: 0 none, 1 one before, 2 one after, 3 both.  Decoy bodies are well-formed: prefixes
    of the target body that end at a tick boundary and contain no forced flag on their first note."""
    if not mode:
        return {header: lines}
    others = [h for h in S.HEADER_LIST if h != header]
    k = sum(len(x) for x in lines[:3]) + len(lines)
    before, after = others[k % 39], others[(k * 7 + 3) % 39]
    if before == after:
        after = others[(k * 7 + 4) % 39]

    def cut(n):
        body = list(lines[:n])
        # do not cut inside a tick group
        while body and n < len(lines) and lines[n].split(" ", 1)[0] == body[-1].split(" ", 1)[0]:
            body.pop()
        first_tick = body[0].split(" ", 1)[0] if body else None
        if any(b.split(" ", 1)[0] == first_tick and " = N 5 " in b for b in body):
            return []
        return body

    def thinned():
        # every other tick group removed: the surviving groups are line-for-line identical to the target's
        # but have other predecessors (anything remembered per group must not be reused across tracks)
        groups, order = {}, []
        for ln in lines:
            t = ln.split(" ", 1)[0]
            if t not in groups:
                groups[t] = []
                order.append(t)
            groups[t].append(ln)
        body = [ln for k, t in enumerate(order) if k % 2 == 0 for ln in groups[t]]
        # a forced flag on what is now the FIRST note group of the decoy would be invalid: drop that line (and if
        # the group consisted of nothing but that line, look at the group that is first now)
        while True:
            first_note_tick = next((b.split(" ", 1)[0] for b in body if " = N " in b), None)
            kept = [b for b in body if not (b.split(" ", 1)[0] == first_note_tick and " = N 5 " in b)]
            if len(kept) == len(body):
                return body
            body = kept

    def rich():
        # a fuller sibling: a plain note on every tick of the target, all of them inside one star-power
        # phrase, a solo around them (what one difficulty contains says nothing about another)
        ticks = sorted({int(ln.split(" ", 1)[0]) for ln in lines if ln[:1].isdigit()})
        if not ticks:
            return []
        body = []
        for j, t in enumerate(ticks):
            body.append(f"{t} = N {(j + k) % 5} {(j % 3) * 4}")
            if j == 0:
                body += [f"{t} = S 2 {ticks[-1] - t + 1}", f"{t} = E solo"]
        return body + [f"{ticks[-1]} = E soloend"]

    def near_copy():
        # the target's own body with the MIDDLE star-power lines one tick longer (same number of phrases, same
        # first and last phrase, same notes): a sibling that looks like the target to anything that compares
        # sections by their size and their ends
        sp = [i for i, ln in enumerate(lines) if " = S 2 " in ln]
        if len(sp) < 3:
            return None
        body = list(lines)
        for i in sp[1:-1]:
            head, ln = body[i].rsplit(" ", 1)
            body[i] = f"{head} {int(ln) + 1}" if ln.isdigit() else body[i]
        return body

    # every third time one neighbour is the same instrument at another difficulty (Expert when possible)
    dtxt = next(d for _, d in S.DIFFICULTIES if header.startswith(d))
    sibling = ("Expert" if dtxt != "Expert" else "Hard") + header[len(dtxt):]
    out = {}
    nc = near_copy()
    if nc is not None and k % 2 == 0:
        # (in front of the target, so that the target is the later of the two)
        out[sibling] = nc
    elif mode & 1:
        if k % 3 == 0:
            out[sibling] = rich()
        else:
            out[before] = thinned() if k % 2 else cut(max(1, len(lines) // 2))
    out[header] = lines
    if mode & 2:
        if k % 3 == 1 and sibling not in out:
            out[sibling] = rich()
        else:
            out[after] = cut(len(lines)) if k % 2 else thinned()
    return out


# global events every chart editor and game knows ("end" is where Clone Hero stops a song, "section ..."
# opens a practice section, ...): what stands in [Events] never changes what a track contains
_EVENT_WORDS = ["end", "music_start", "section Chorus 1", "lyric la", "phrase_start", "end", "music_end", "coda",
                "phrase_end", "idle", "section end", "solo", "soloend", "half_tempo", "End", "section Verse 2a",
                "lighting (chase)", "crowd_noclap", "play", "lyric end", "normal_tempo", "crowd_lighters_fast",
                "band_jump", "preview", "ENABLE_CHART_DYNAMICS", "section prc_intro", "lyric +", "Default", "verse",
                "sync_wag", "crowd_realtime", "lighting ()", "section [prc_verse_1]", "music_end", "chorus"]


def _global_events(lines: list[str]) -> list[list]:
    """Two out of three sections get 1..3 global events at ticks of their own lines (first third, middle,
    just behind the first line): a deterministic function of the section's text."""
    ticks = sorted({int(l.split(" ", 1)[0]) for l in lines if l[:1].isdigit()})
    k = zlib.crc32("\n".join(lines[:40]).encode())
    if not ticks or k % 3 == 0:
        return []
    at = [ticks[len(ticks) // 3], ticks[len(ticks) // 2], ticks[0] + 1][: 1 + (k >> 4) % 3]
    evs = [[t, _EVENT_WORDS[((k >> 8) + 7 * j) % len(_EVENT_WORDS)]] for j, t in enumerate(at)]
    return sorted(evs, key=lambda e: e[0])


# lines that say nothing about notes or star power: track events (whatever their word) and lines that are
# not of the format (special phrases other than type 2, lane 8, ...), which are skipped with a warning
_INERT = ["E *", "E T", "E O", "E solo", "S 64 {n}", "E soloend", "S 0 {n}", "S 1 {n}", "E N", "E 5", "S 65 {n}",
          "N 8 0", "E forced", "E tap", "S 66 {n}", "E sp", "E S", "N 9 {n}", "E 6", "S 3 {n}", "E hopo",
          "E ENHANCED_OPENS", "E [ENHANCED_OPENS]", "N 32 0", "N 34 {n}", "N 64 0", "N 66 0", "E ENABLE_CHART_DYNAMICS",
          "E H", "E P", "E open", "E 7", "E end", "E mix_3_drums0d", "E ow_face_on", "S 4 {n}", "S 20 {n}", "N 10 0"]


def _with_inert(lines: list[str]) -> list[str]:
    """Two out of three sections get 1..3 inert lines, each appended to one of the section's tick groups
    (so the section stays in tick order): a deterministic function of the section's text."""
    k = zlib.crc32("\n".join(lines[:40]).encode()) >> 5
    if not lines or k % 3 == 0:
        return lines
    ends = [i for i in range(len(lines))
            if i + 1 == len(lines) or lines[i + 1].split(" ", 1)[0] != lines[i].split(" ", 1)[0]]
    chosen = sorted({ends[(k >> 2) % len(ends)], ends[(k >> 9) % len(ends)], ends[0]})[: 1 + (k >> 14) % 3]
    out = []
    for i, ln in enumerate(lines):
        out.append(ln)
        if i in chosen:
            form = _INERT[((k >> 17) + 3 * i) % len(_INERT)]
            out.append(f"{ln.split(' ', 1)[0]} = " + form.format(n=[0, 1, 5, 100, 10000][(k + i) % 5]))
    return out


def parse_track(ctx, res: int, tempo, lines: list[str], header: str, rc, fmt: int = 0, decoy: int | None = None):
    """Returns (chart, track) or (None, None) after reporting a violation."""
    if decoy is None:
        decoy = (fmt >> 2) % 4 if fmt else (len(lines) % 5 if len(lines) % 5 < 4 else 0) if len(lines) % 2 else 0
    strays = lines[:: max(1, len(lines) // 3)][:3] if (not fmt and len(lines) % 3 == 0) else ()
    secs = _decoys(header, lines, decoy)
    secs[header] = _with_inert(lines)
    k = zlib.crc32("\n".join(lines[:40]).encode()) >> 7
    text = chart_text(res, tempo, secs, events=_global_events(lines), fmt=fmt, strays=strays,
                      extra=k if k % 3 else 0)
    # how the chart is parsed cannot matter to the section under test either: no selection (half of the
    # cases), every section of the file selected (several instruments in one selection), or the target
    # plus a pair the file lacks; given as a list or a tuple
    want = None
    sel = (k >> 4) % 6
    if sel >= 3:
        def pair(h):
            iname, dname = S.HEADERS[h]
            return (L.Instrument[iname], L.Difficulty[dname])
        if sel == 3:
            want = [pair(h) for h in secs]
        elif sel == 4:
            want = tuple(pair(h) for h in reversed(list(secs)))
        else:
            absent = next(h for h in S.HEADER_LIST[(k >> 8) % 40:] + S.HEADER_LIST if h not in secs)
            want = [pair(absent), pair(header)]
    try:
        chart = L.parse(text, want)
    except Exception as e:  # noqa: BLE001
        ctx.fail("chart-parses", f"well-formed instrument section rejected: {type(e).__name__}: {e}", rc)
        return None, None
    try:
        return chart, get_track(chart, header)
    except KeyError:
        ctx.fail("track-present", f"track {header} missing from parsed chart", rc)
        return None, None


def sustain_plain(s):
    return list(s) if isinstance(s, tuple) else s


def compare_notes(ctx, tr, expected: list[dict], rc, aspects: set[str]) -> bool:
    """Compare the aspects {"ticks","lanes","sustain","hopo","sp"} of the parsed note events with
    the model.  Returns False after the first reported difference (when it was a known finding)."""
    got_ticks = [e.tick for e in tr.note_events]
    want_ticks = [x["tick"] for x in expected]
    if "ticks" in aspects or len(got_ticks) != len(want_ticks):
        if got_ticks != want_ticks:
            extra = [t for t in got_ticks if t not in set(want_ticks)]
            missing = [t for t in want_ticks if t not in set(got_ticks)]
            dup = sorted({t for t in got_ticks if got_ticks.count(t) > 1})[:5] \
                if len(got_ticks) < 2000 else []
            ctx.fail("one-event-per-tick",
                     f"{len(want_ticks)} distinct ticks carry note lines but {len(got_ticks)} note "
                     f"events were produced; missing ticks {missing[:5]}, extra {extra[:5]}, "
                     f"duplicated {dup}", rc)
            return False
    for e, x in zip(tr.note_events, expected):
        if "lanes" in aspects and tuple(e.note.value) != x["value"]:
            ctx.fail("lanes-exact", f"tick {x['tick']}: lanes {tuple(e.note.value)} ({e.note.name}) != "
                                    f"written {x['value']}", rc)
            return False
        if "sustain" in aspects:
            if sustain_plain(e.sustain) != sustain_plain(x["sustain"]):
                ctx.fail("sustain-exact", f"tick {x['tick']}: sustain {e.sustain!r} != expected "
                                          f"{x['sustain']!r}", rc)
                return False
            if e.longest_sustain != x["longest"]:
                ctx.fail("longest-sustain", f"tick {x['tick']}: longest_sustain {e.longest_sustain} != "
                                            f"{x['longest']}", rc)
                return False
            if e.end_tick != x["end_tick"]:
                ctx.fail("end-tick", f"tick {x['tick']}: end_tick {e.end_tick} != {x['end_tick']}", rc)
                return False
        if "hopo" in aspects and e.hopo_state.name != x["hopo"]:
            ctx.fail("hopo-state", f"tick {x['tick']}: hopo_state {e.hopo_state.name} != expected "
                                   f"{x['hopo']} (lanes {x['value']}, tap={x['tap']}, "
                                   f"forced={x['forced']})", rc)
            return False
        if "sp" in aspects:
            spd = e.star_power_data
            got = None if spd is None else spd.star_power_event_index
            if got != x["sp"]:
                ctx.fail("star-power-membership", f"note at tick {x['tick']}: star power index {got} != "
                                                  f"expected {x['sp']}", rc)
                return False
    return True
