"""C19 — a parsed chart is an immutable value under all read-only use."""
from __future__ import annotations

from datetime import timedelta

from hypothesis import strategies as st
from hypothesis.stateful import RuleBasedStateMachine, initialize, invariant, rule

from cpverif import spec as S
from cpverif import strategies as G
from cpverif.core import Ctx, Part, custom_part, enum_part, run_machine
from cpverif.lib import L
from cpverif.observe import diff_paths, observation

RULE = (
    "Rule-based state machine (Hypothesis stateful): the initial state is (chart, twin) parsed from one "
    "generated chart text (0..3 tracks, multi-segment tempo map; a quarter of the charts have their tick "
    "groups permuted over a single tempo, i.e. parse to tracks that are not in tick order); rules are read-only operations with "
    "generated arguments: notes_per_second in every argument form incl. failing ones and absent tracks; "
    "chart[instrument] for all 10 instruments and .get(difficulty) on the result; both tick-to-time "
    "queries (valid, negative, with valid and invalid hints); str/repr of chart, tracks and events; "
    "== / != between object pairs incl. foreign types; hash(event); reading derived attributes "
    "(longest_sustain, end_tick, last_note_end_timestamp, header_tag); iterating / slicing / indexing "
    "bpm_events; attempted attribute assignment on events and tracks (must raise, value unchanged). "
    "Invariant after every step: chart == twin (evaluated before any observation so that lazily cached "
    "attributes cannot hide a difference), observation(chart) equals the observation of a third, "
    "untouched parse, including the key structure of instrument_tracks. part fixed replays a "
    "deterministic operation list on two fixed charts. Non-trivial iff the history has >= 3 operations "
    "and contains an operation on an absent instrument/difficulty or a failing query; distinct = "
    "distinct (chart, operation sequence)."
    ' An observation walk that succeeded after parsing and raises after an operation counts as a change.'
)
ASSUMPTIONS = [
    "operations may raise (ValueError, KeyError for an absent key, TypeError for unhashable tracks): only "
    "state change is judged",
    "the twin is never read except through ==/!=; parsing determinism itself is C17's subject",
]

SIG_ABSENT = "absent-instrument-lookup-inserts-key"


def _public_attrs(obj) -> list[str]:
    """Names of the public, non-callable attributes of an object: dataclass fields, properties and
    cached properties alike, whatever they are called (so that attributes added later are read too)."""
    names = set(n for n in dir(type(obj)) if not n.startswith("_"))
    names |= set(n for n in getattr(obj, "__dict__", {}) if not n.startswith("_"))
    out = []
    for n in sorted(names):
        cls_attr = getattr(type(obj), n, None)
        if callable(cls_attr) and not isinstance(cls_attr, (property,)) and not hasattr(cls_attr, "__set_name__"):
            continue            # plain methods / classmethods / nested classes
        if isinstance(cls_attr, type):
            continue
        out.append(n)
    return out


def _plain(v, depth=0):
    """A comparable rendering of an attribute value as a CLIENT sees it: iterables are iterated."""
    import enum
    if v is None or isinstance(v, (bool, int, float, str, bytes)):
        return v
    if isinstance(v, timedelta):
        return ["td", v.days, v.seconds, v.microseconds]
    if isinstance(v, enum.Enum):
        return ["enum", type(v).__name__, v.name]
    if isinstance(v, dict):
        return ["dict", [[_plain(k, depth + 1), _plain(x, depth + 1)] for k, x in list(v.items())[:50]]] \
            if depth < 3 else ["dict", len(v)]
    if type(v).__module__.startswith("chartparse") and not hasattr(v, "__iter__"):
        return ["obj", type(v).__name__, str(v)[:160]]
    if hasattr(v, "__iter__"):
        if depth >= 3:
            return ["iter", type(v).__name__]
        items = []
        for k, x in enumerate(v):
            if k >= 50:
                break
            items.append(_plain(x, depth + 1))
        return ["iter", items]
    return ["other", type(v).__name__]


def _read_all(obj) -> dict:
    """Read every public attribute the way a client would (iterating what is iterable)."""
    out = {}
    for n in _public_attrs(obj):
        try:
            out[n] = _plain(getattr(obj, n))
        except Exception as e:  # noqa: BLE001
            out[n] = ["raises", type(e).__name__]
    return out


class Session:
    """Interpreter of JSON-able operations on a (chart, twin) pair; used live by the state machine and
    by replay."""

    def __init__(self, ctx: Ctx, spec):
        self.ctx = ctx
        self.spec = spec
        self.text = S.render(spec)
        self.ops: list = []
        self.flags = {"absent": False, "failing": False}
        # a chart parsed with a track selection (spec["want"]: list of header names, [] included) is a
        # chart like any other
        want = spec.get("want")
        pairs = None if want is None else [(L.Instrument[S.HEADERS[h][0]], L.Difficulty[S.HEADERS[h][1]])
                                           for h in want]
        try:
            self.chart = L.parse(self.text, want_tracks=pairs)
            self.twin = L.parse(self.text, want_tracks=pairs)
            ref = L.parse(self.text, want_tracks=pairs)
            # charts of the SAME text that hold other sets of tracks (everything / nothing / the first track only):
            # comparing with them is a read-only use like any other
            self.others = [L.parse(self.text), L.parse(self.text, want_tracks=[])]
            first = next(iter(spec.get("tracks") or {}), None)
            if first is not None:
                self.others.append(L.parse(self.text, want_tracks=[(L.Instrument[S.HEADERS[first][0]],
                                                                     L.Difficulty[S.HEADERS[first][1]])]))
        except Exception as e:  # noqa: BLE001
            ctx.fail("chart-parses", f"well-formed chart rejected: {type(e).__name__}: {e}",
                     {"spec": spec, "ops": []})
            self.chart = None
            return
        self.obs0 = observation(ref)
        # every public attribute of every object of the untouched third parse, read once
        self.attrs0 = [_read_all(o) for o in self._objects(ref)]
        # what iteration and rendering expose (order included): taken from the untouched third parse
        self.order0 = self._order(ref)
        self.str0 = [str(ref), repr(ref)]
        self.insts = list(L.Instrument)
        self.diffs = list(L.Difficulty)

    # -- helpers ------------------------------------------------------------------------------
    @staticmethod
    def _order(chart):
        return [[i.name, [d.name for d in inner]] for i, inner in chart.instrument_tracks.items()]

    def _tracks(self):
        return [tr for inner in self.chart.instrument_tracks.values() for tr in inner.values()]

    def _events(self):
        c = self.chart
        ev = list(c.sync_track.bpm_events) + list(c.sync_track.time_signature_events) + \
            list(c.sync_track.anchor_events)
        g = c.global_events_track
        ev += list(g.text_events) + list(g.section_events) + list(g.lyric_events)
        for tr in self._tracks():
            ev += list(tr.note_events) + list(tr.star_power_events) + list(tr.track_events)
        return ev

    @staticmethod
    def _objects(c):
        """The chart and (a bounded number of) the objects it is made of, in a fixed order."""
        objs = [c, c.metadata, c.sync_track, c.sync_track.bpm_events, c.global_events_track]
        objs += list(c.sync_track.bpm_events)[:4] + list(c.sync_track.time_signature_events)[:3] + \
            list(c.sync_track.anchor_events)[:2]
        g = c.global_events_track
        objs += list(g.text_events)[:2] + list(g.section_events)[:2] + list(g.lyric_events)[:2]
        for inner in c.instrument_tracks.values():
            for tr in inner.values():
                objs.append(tr)
                objs += list(tr.note_events)[:12] + list(tr.star_power_events)[:3] + list(tr.track_events)[:2]
        return objs[:120]

    def rc(self):
        return {"spec": self.spec, "ops": list(self.ops)}

    # -- operations ---------------------------------------------------------------------------
    def apply(self, op) -> None:
        self.ops.append(op)
        c = self.chart
        name = op[0]
        try:
            if name == "nps":
                _, ii, di, form, a, b = op
                inst, diff = self.insts[ii % 10], self.diffs[di % 4]
                present = inst in self.obs_keys() and diff.name in self.obs_keys()[inst]
                if not present:
                    self.flags["absent"] = True
                args = {"none": (), "tick": (a,), "tick_tick": (a, b),
                        "time": (timedelta(microseconds=a),),
                        "time_time": (timedelta(microseconds=a), timedelta(microseconds=b))}[form]
                try:
                    c.notes_per_second(inst, diff, *args)
                except ValueError:
                    self.flags["failing"] = True
            elif name == "getitem":
                _, ii, di = op
                inst, diff = self.insts[ii % 10], self.diffs[di % 4]
                if inst not in self.obs_keys():
                    self.flags["absent"] = True
                try:
                    inner = c[inst]
                except KeyError:
                    self.flags["failing"] = True
                else:
                    inner.get(diff)
                    diff in inner
                    len(inner)
            elif name == "mapping_read":
                _, ii = op
                inst = self.insts[ii % 10]
                c.instrument_tracks.get(inst)
                inst in c.instrument_tracks
                list(c.instrument_tracks.keys())
                len(c.instrument_tracks)
            elif name == "query":
                _, tick, hint = op
                bpm = c.sync_track.bpm_events
                try:
                    if hint is None:
                        bpm.timestamp_at_tick_no_optimize_return(tick)
                        bpm.timestamp_at_tick(tick)
                    else:
                        bpm.timestamp_at_tick(tick, start_iteration_index=hint)
                except ValueError:
                    self.flags["failing"] = True
            elif name == "render":
                _, k = op
                objs = [c, c.metadata, c.sync_track, c.global_events_track] + self._tracks() + self._events()
                o = objs[k % len(objs)]
                str(o)
                repr(o)
                if k % 7 == 0:
                    str(c)
                    repr(c)
            elif name == "compare":
                _, k = op
                ev = self._events()
                tr = self._tracks()
                c == self.twin
                c != self.twin
                c == c
                c == 5
                o = self.others[k % len(self.others)]
                c == o
                o == c
                c != o
                o != c
                c.metadata == self.twin.metadata
                c.sync_track == self.twin.sync_track
                c.global_events_track != self.twin.global_events_track
                if ev:
                    a, b = ev[k % len(ev)], ev[(k // 3) % len(ev)]
                    a == b
                    a != b
                    a == "x"
                    a == None  # noqa: E711
                if tr:
                    tr[k % len(tr)] == tr[(k // 2) % len(tr)]
                    tr[k % len(tr)] != c
            elif name == "hash":
                _, k = op
                ev = self._events()
                if ev:
                    hash(ev[k % len(ev)])
                    {ev[k % len(ev)]: 1}
                tr = self._tracks()
                if tr:
                    try:
                        hash(tr[k % len(tr)])
                    except TypeError:
                        pass
            elif name == "derived":
                _, k = op
                for tr in self._tracks():
                    tr.header_tag
                    tr.last_note_end_timestamp
                    if tr.note_events:
                        e = tr.note_events[k % len(tr.note_events)]
                        e.longest_sustain
                        e.end_tick
                        e.end_timestamp
                    if tr.star_power_events:
                        sp = tr.star_power_events[k % len(tr.star_power_events)]
                        sp.end_tick
                        sp.tick_is_during_event(k)
                        sp.tick_is_after_event(k)
            elif name == "attrs":
                # a generic dump of an object (debugger, serializer, test helper): every public attribute
                # is read, whatever is iterable is iterated -- twice, as two clients would
                _, k = op
                objs = self._objects(c)
                for j in (k, k + 1, k * 7 + 3):
                    _read_all(objs[j % len(objs)])
                    _read_all(objs[j % len(objs)])
                if k % 5 == 0:
                    for o in objs:
                        _read_all(o)
            elif name == "iterate":
                _, k = op
                bpm = c.sync_track.bpm_events
                list(bpm)
                bpm[: k % 4]
                bpm[0]
                bpm[-1]
                len(bpm)
                bpm[0] in bpm
                reversed(bpm)
                try:
                    bpm[len(bpm) + k]
                except IndexError:
                    self.flags["failing"] = True
                sorted(bpm.events, key=lambda e: -e.tick)
            elif name == "setattr":
                self._setattr(op[1])
            else:
                raise AssertionError(f"unknown op {op}")
        except (ValueError, KeyError, TypeError, IndexError, AttributeError) as e:
            # documented or ordinary refusals of an operation are fine; only state change is judged.
            # (violations raised by ctx.fail are of another type and propagate)
            self.flags["failing"] = True
            self.ctx.classes[f"op_raised_{type(e).__name__}"] += 1
        self.ctx.classes[f"op_{name}"] += 1

    def _setattr(self, k: int) -> None:
        c = self.chart
        targets = []
        ev = self._events()
        if ev:
            e = ev[k % len(ev)]
            targets += [(e, "tick", 123456), (e, "timestamp", timedelta(seconds=1))]
            if hasattr(e, "sustain"):
                targets.append((e, "sustain", 99))
            if hasattr(e, "value"):
                targets.append((e, "value", "changed"))
            if hasattr(e, "bpm"):
                targets.append((e, "bpm", 1.0))
        for tr in self._tracks():
            targets += [(tr, "note_events", []), (tr, "instrument", None)]
        targets += [(c.sync_track, "bpm_events", None), (c.global_events_track, "text_events", [])]
        obj, attr, val = targets[k % len(targets)]
        before = getattr(obj, attr)
        try:
            setattr(obj, attr, val)
        except (AttributeError, TypeError):
            pass
        else:
            self.ctx.fail("assignment-rejected", f"{type(obj).__name__}.{attr} = {val!r} was accepted",
                          self.rc())
        if getattr(obj, attr) is not before:
            self.ctx.fail("assignment-rejected", f"{type(obj).__name__}.{attr} changed by a rejected "
                                                 f"assignment", self.rc())

    def present_pairs(self):
        out = []
        for ii, inst in enumerate(self.insts):
            for di, diff in enumerate(self.diffs):
                if inst in self.obs_keys() and diff.name in self.obs_keys()[inst]:
                    out.append((ii, di))
        return out

    def obs_keys(self):
        if not hasattr(self, "_keys"):
            self._keys = {L.Instrument[i]: set(d) for i, d in self.obs0["track_keys"]}
        return self._keys

    # -- invariant ----------------------------------------------------------------------------
    def check(self) -> None:
        c = self.chart
        eq = (c == self.twin) and (self.twin == c) and not (c != self.twin)
        try:
            o = observation(c)
        except Exception as e:  # noqa: BLE001
            # the same walk over the public attributes succeeded right after parsing: if it fails now, a
            # read-only operation has changed what the chart is made of
            self.ctx.fail("observation-changed",
                          f"after {self.ops[-1] if self.ops else 'parsing'}: the chart's public data can no longer "
                          f"be read the way it was read after parsing: {type(e).__name__}: {e}", self.rc())
            return
        if o != self.obs0:
            d = diff_paths(self.obs0, o)
            sig = None
            o2 = dict(o, track_keys=[k for k in o["track_keys"] if k[1]])
            if o2 == dict(self.obs0, track_keys=[k for k in self.obs0["track_keys"] if k[1]]):
                sig = SIG_ABSENT
            self.ctx.fail("observation-changed",
                          f"after {self.ops[-1] if self.ops else 'parsing'}: {d}", self.rc(), sig)
            if sig:
                # known finding: restore so that the search can continue
                for inst in [i for i, inner in list(c.instrument_tracks.items()) if not inner]:
                    del c.instrument_tracks[inst]
                return
        if self._order(c) != self.order0:
            self.ctx.fail("observation-changed", f"after {self.ops[-1] if self.ops else 'parsing'}: "
                                                 f"instrument_tracks now iterates as {self._order(c)}, it was "
                                                 f"{self.order0}", self.rc())
        if len(self.ops) % 3 == 0 and [str(c), repr(c)] != self.str0:
            self.ctx.fail("observation-changed", f"after {self.ops[-1] if self.ops else 'parsing'}: str()/repr() "
                                                 f"of the chart changed", self.rc())
        if self.ops and self.ops[-1][0] in ("attrs", "derived", "render", "compare") or len(self.ops) % 4 == 0:
            now = [_read_all(o) for o in self._objects(c)]
            if now != self.attrs0:
                d = diff_paths(self.attrs0, now)
                self.ctx.fail("observation-changed", f"after {self.ops[-1] if self.ops else 'parsing'}: public "
                                                     f"attributes read differently than on a chart nobody has "
                                                     f"touched: {d}", self.rc())
        if not eq:
            self.ctx.fail("twin-equality", f"after {self.ops[-1] if self.ops else 'parsing'}: chart != "
                                           f"identically parsed twin (observations equal)", self.rc())


_unsorted_variant = G.unsorted_variant


def check_history(ctx: Ctx, case) -> None:
    """Replay entry: {"spec": ..., "ops": [...]}."""
    s = Session(ctx, case["spec"])
    if s.chart is None:
        return
    s.check()
    for op in case["ops"]:
        s.apply(op)
        s.check()
    _note(ctx, s)


def _note(ctx: Ctx, s: Session) -> None:
    ctx.note([s.text, s.ops], nontrivial=len(s.ops) >= 3 and (s.flags["absent"] or s.flags["failing"]),
             classes=[f"len_{min(len(s.ops) // 5 * 5, 25)}+"]
             + (["has_absent_lookup"] if s.flags["absent"] else [])
             + (["has_failing_op"] if s.flags["failing"] else []),
             sample={"tracks": list(s.spec["tracks"]), "ops": s.ops[:12]})
    ctx.evaluations += max(0, len(s.ops) - 1)


def drive_machine(ctx: Ctx) -> None:
    n_examples = ctx.pick(100, 800)

    class ReadOnlyUse(RuleBasedStateMachine):
        def __init__(self):
            super().__init__()
            self.s = None

        @initialize(c=G.chart_specs(max_segments=4, max_tracks=3, max_notes=8, max_events=3, max_ts=2,
                                    max_anchors=1),
                    unsorted=st.integers(0, 3), data=st.data())
        def setup(self, c, unsorted, data):
            self.max_tick = c["max_tick"]
            spec = c["spec"]
            sel = data.draw(st.integers(0, 5))
            if sel <= 1:
                spec = dict(spec)
                present = list(spec["tracks"])
                if sel == 0 or not present:
                    spec["want"] = []
                else:
                    spec["want"] = data.draw(st.lists(st.sampled_from(present + ["ExpertDrums", "EasyGHLBass"]),
                                                      max_size=4))
                ctx.classes["parsed_with_selection"] += 1
            if unsorted == 0:
                # a chart whose body lines are NOT in tick order is a chart too (it parses as long as the
                # lookup hints cannot object, i.e. over a single tempo): tick groups are permuted
                spec = _unsorted_variant(spec, data.draw)
                ctx.classes["unsorted_chart"] += 1
            self.s = Session(ctx, spec)
            ctx.current = self.s.rc()
            if self.s.chart is not None:
                self.s.check()

        def _do(self, op):
            if self.s is None or self.s.chart is None:
                return
            self.s.apply(op)
            ctx.current = self.s.rc()

        def _pair(self, ii, di, pick):
            # two thirds of the track-addressed operations go to a track that exists (otherwise only
            # 1 in 40 would), the rest to arbitrary -- mostly absent -- pairs
            if self.s is not None and self.s.chart is not None and pick < 66:
                present = self.s.present_pairs()
                if present:
                    return present[pick % len(present)]
            return ii, di

        @rule(ii=st.integers(0, 9), di=st.integers(0, 3), pick=st.integers(0, 99),
              form=st.sampled_from(["none", "tick", "tick_tick", "time", "time_time"]),
              a=st.one_of(st.integers(0, 2000), st.integers(0, 10 ** 6)),
              b=st.one_of(st.integers(0, 10 ** 7), st.integers(0, 10 ** 9)))
        def nps(self, ii, di, pick, form, a, b):
            if form.startswith("tick"):
                a, b = min(a, self.max_tick), min(b, self.max_tick)
            ii, di = self._pair(ii, di, pick)
            self._do(["nps", ii, di, form, a, b])

        @rule(ii=st.integers(0, 9), di=st.integers(0, 3), pick=st.integers(0, 99))
        def getitem(self, ii, di, pick):
            ii, di = self._pair(ii, di, pick)
            self._do(["getitem", ii, di])

        @rule(ii=st.integers(0, 9))
        def mapping_read(self, ii):
            self._do(["mapping_read", ii])

        @rule(tick=st.one_of(st.integers(-5, 50), st.integers(0, 10 ** 6)),
              hint=st.one_of(st.none(), st.integers(0, 6)))
        def query(self, tick, hint):
            self._do(["query", min(tick, self.max_tick), hint])

        @rule(k=st.integers(0, 200))
        def render(self, k):
            self._do(["render", k])

        @rule(k=st.integers(0, 200))
        def compare(self, k):
            self._do(["compare", k])

        @rule(k=st.integers(0, 200))
        def hash_(self, k):
            self._do(["hash", k])

        @rule(k=st.integers(0, 200))
        def derived(self, k):
            self._do(["derived", k])

        @rule(k=st.integers(0, 5))
        def iterate(self, k):
            self._do(["iterate", k])

        @rule(k=st.integers(0, 200))
        def attrs(self, k):
            self._do(["attrs", k])

        @rule(k=st.integers(0, 200))
        def setattr_(self, k):
            self._do(["setattr", k])

        @invariant()
        def unchanged(self):
            if self.s is not None and self.s.chart is not None:
                self.s.check()

        def teardown(self):
            if self.s is not None and self.s.chart is not None:
                _note(ctx, self.s)

    run_machine(ctx, "machine", ReadOnlyUse, n_examples, step_count=ctx.pick(25, 50))


# ------------------------------------------------------------------------------------------------
def fixed_cases(ctx: Ctx):
    spec1 = {"res": 192, "sync": [[0, "TS", 4], [0, "B", 120000], [400, "B", 90000]],
             "events": [[0, "section a"], [10, "lyric b"], [20, "c"]],
             "tracks": {"ExpertSingle": [[0, "N", 0, 0], [10, "N", 1, 20], [10, "N", 2, 30], [20, "S", 2, 50],
                                         [30, "N", 7, 0], [30, "E", "solo"]],
                        "HardSingle": []}}
    spec2 = {"res": 480, "sync": [[0, "TS", 3, 3], [0, "B", 60000]], "events": [], "tracks": {}}
    ops = []
    for ii in range(10):
        ops.append(["getitem", ii, ii % 4])
        ops.append(["nps", ii, (ii + 1) % 4, ["none", "tick", "tick_tick", "time", "time_time"][ii % 5], 0, 100])
        ops.append(["mapping_read", ii])
    ops += [["attrs", 0], ["attrs", 3], ["attrs", 5], ["attrs", 11], ["attrs", 20]]
    ops += [["query", -1, None], ["query", 5, 0], ["query", 5, 1], ["query", 500, 1], ["query", 500, 2],
            ["render", 0], ["render", 7], ["compare", 3], ["hash", 2], ["derived", 1], ["iterate", 1],
            ["setattr", 0], ["setattr", 3], ["setattr", 11], ["nps", 0, 3, "tick_tick", 30, 30],
            ["nps", 0, 2, "none", 0, 0]]
    yield {"spec": spec1, "ops": ops}
    yield {"spec": spec2, "ops": ops}
    spec3 = {"res": 192, "sync": [[0, "TS", 4], [0, "B", 120000]], "events": [[50, "b"], [10, "a"]],
             "tracks": {"ExpertSingle": [[0, "N", 0, 0], [384, "N", 1, 40], [96, "N", 2, 0], [192, "N", 3, 500],
                                         [300, "S", 2, 10], [100, "S", 2, 10]]}}
    spec4 = dict(spec1, tracks={"ExpertSingle": spec1["tracks"]["ExpertSingle"], "EasySingle": [[5, "N", 1, 0]],
                               "HardSingle": [], "ExpertDrums": [[9, "N", 2, 0]], "MediumSingle": [[7, "N", 0, 0]]})
    yield {"spec": spec4, "ops": ops}
    yield {"spec": dict(spec1, want=[]), "ops": ops}
    yield {"spec": dict(spec1, want=["HardSingle", "ExpertDrums"]), "ops": ops}
    # every instrument family next to each legacy [Song] value (reads of ABSENT instruments / difficulties are
    # reads too: they raise and change nothing)
    body = [[0, "N", 0, 0], [48, "N", 1, 10], [96, "N", 7, 0], [96, "S", 2, 20]]
    for p2, headers in (("rhythm", ["ExpertDoubleBass", "HardDoubleBass", "ExpertDoubleGuitar", "EasyGHLGuitar"]),
                        ("bass", ["ExpertDoubleRhythm", "MediumDrums", "ExpertKeyboard", "HardGHLBass"]),
                        ("rhythm", ["ExpertDoubleRhythm", "ExpertDoubleBass", "ExpertGHLCoop", "ExpertGHLRhythm"])):
        song = [["Name", '"n"'], ["Player2", p2], ["Offset", "5"], ["Resolution", "192"], ["Difficulty", "3"]]
        yield {"spec": dict(spec1, song=song, tracks={h: list(body) for h in headers}), "ops": ops}
    yield {"spec": spec3, "ops": ops + [["nps", 0, 3, "none", 0, 0], ["nps", 0, 3, "tick_tick", 0, 400],
                                        ["nps", 0, 3, "time_time", 0, 5000000]]}


PARTS: list[Part] = [
    enum_part("fixed", fixed_cases, check_history, {"quick": 2, "thorough": 2}),
    custom_part("machine", drive_machine, check_history, {"quick": 8, "thorough": 16}),
]
