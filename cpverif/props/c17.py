"""C17 — parsing is a pure function of the text, free of history and schedule."""
from __future__ import annotations

import copy
import json
import os
import subprocess
import sys

from hypothesis import strategies as st
from hypothesis.stateful import RuleBasedStateMachine, initialize, precondition, rule

from cpverif import core
from cpverif import spec as S
from cpverif import strategies as G
from cpverif.core import Ctx, Part, Violation, custom_part, enum_part, run_machine
from cpverif.model import hopo_threshold
from cpverif.observe import diff_paths

RULE = (
    "Rule-based state machine over a corpus of chart texts: add_text draws a text, deliberately as a "
    "VARIATION of an existing one (other resolution with note gaps at its res/3 threshold, other sustain "
    "tuples with shared prefixes, same headers with other content, invalid variants for each documented "
    "error class, or an unrelated chart) so that process-wide memo tables see colliding keys; "
    "parse(i, selection); parse_threads(i1..ik) under OS scheduling with a 1 us switch interval or under "
    "a cooperative line-granular scheduler (sys.settrace) whose schedule (thread picks / run lengths) "
    "is drawn by Hypothesis. Every history is executed in ONE fresh interpreter. Oracle: every parse "
    "result of the history equals the parse of the same (text, selection) alone in a fresh interpreter "
    "(full observation equality, or same exception class and message); baselines under two different "
    "PYTHONHASHSEED values must agree; repeated parses inside one process must be == to the first. "
    "Non-trivial iff the history has >= 3 parses over >= 2 distinct texts and contains a failing parse "
    "or a thread rule; distinct = distinct history."
    " Fixed histories also cover: numeric twins (all ticks moved by 2^61-1, 2^32, 2^53, 2^64 ...), charts with a 4999-digit number at each numeric position, long tempo maps of equal length alternating with failing twins, and clients that release every chart before the next parse (operation 'forget')."
)
ASSUMPTIONS = [
    "thread schedules are sampled at line granularity (pre-emption inside one C call is not explored); "
    "logging output is not compared",
    "a worker that exceeds its time limit makes the run inconclusive (harness error), never a violation",
]

WORKER = os.path.join(core.VERIF, "cpverif", "worker_c17.py")


def run_job(texts, ops, hashseed="0", timeout=180):
    job = {"repo": core.REPO, "texts": texts, "ops": ops}
    env = dict(os.environ, PYTHONHASHSEED=str(hashseed), PYTHONDONTWRITEBYTECODE="1")
    env.pop("PYTHONPATH", None)
    try:
        p = subprocess.run([sys.executable, "-S", WORKER], input=json.dumps(job), capture_output=True,
                           text=True, env=env, timeout=timeout)
    except subprocess.TimeoutExpired as e:
        raise core.HarnessError(f"C17 worker timed out after {timeout}s") from e
    if p.returncode != 0:
        return {"crash": p.stderr[-1500:]}
    # (integers beyond the interpreter's str->int limit may legitimately come back from a worker whose library code
    # lifted that limit: keep them as text instead of failing in the harness)
    return json.loads(p.stdout, parse_int=lambda d: int(d) if len(d) <= 4000 else f"int:{len(d)}digits:{d[:16]}..{d[-16:]}")


def _flat(results):
    out = []
    for r in results:
        if "threads" in r:
            out += r["threads"]
        elif "forgot" not in r:
            out.append(r)
    return out


def _flat_ops(ops):
    out = []
    for op in ops:
        if op[0] == "parse":
            out.append((op[1], op[2], "seq"))
        elif op[0] == "parse_path":
            out.append((op[1], op[2], f"by path, slot {op[3]}"))
        elif op[0] == "forget":
            continue
        else:
            out += [(ti, sel, f"thread/{op[2]}") for ti, sel in op[1]]
    return out


def _norm_exc(exc):
    import re
    return [exc[0], re.sub(r"0x[0-9a-fA-F]+", "0x?", exc[1])]


def _describe(r):
    return "chart" if r.get("ok") else f"{r['exc'][0]}: {r['exc'][1][:120]}"


def check_history(ctx: Ctx, case, baselines=None) -> None:
    texts, ops = case["texts"], case["ops"]
    if not ops:
        return
    rc = case
    res = run_job(texts, ops)
    if "crash" in res:
        ctx.fail("history-crashed", f"the history process died: {res['crash'][-400:]}", rc)
        return
    flat = _flat(res["results"])
    fops = _flat_ops(ops)
    base_cache = baselines if baselines is not None else {}
    n_fail = 0
    for (ti, sel, how), r in zip(fops, flat):
        key = json.dumps([texts[ti], sel])
        if key not in base_cache:
            b = run_job([texts[ti]], [["parse", 0, sel]], hashseed="1")
            if "crash" in b:
                ctx.fail("baseline-crashed", f"fresh parse died: {b['crash'][-400:]}", rc)
                return
            b = b["results"][0]
            if ctx.tier == "thorough" or not base_cache or sel:
                b2 = run_job([texts[ti]], [["parse", 0, sel]], hashseed="987654321")
                b2 = b2["results"][0] if "results" in b2 else b2
                if b2 != b:
                    ctx.fail("hashseed-dependent", f"fresh parses under two PYTHONHASHSEED values differ: "
                                                   f"{_describe(b)} vs {_describe(b2)}",
                             {"texts": [texts[ti]], "ops": [["parse", 0, sel]]})
            base_cache[key] = b
        b = base_cache[key]
        if r is None:
            ctx.fail("history-result-missing", f"no result for text {ti} ({how})", rc)
            continue
        if not r.get("ok"):
            n_fail += 1
        if r.get("ok") != b.get("ok"):
            ctx.fail("history-dependent", f"text {ti} selection {sel} ({how}): in the history -> "
                                          f"{_describe(r)}; alone in a fresh interpreter -> {_describe(b)}", rc)
        elif r.get("ok"):
            if r["obs"] != b["obs"]:
                ctx.fail("history-dependent", f"text {ti} selection {sel} ({how}): chart differs from the "
                                              f"fresh-interpreter parse: {diff_paths(b['obs'], r['obs'])}", rc)
            elif r.get("order") != b.get("order"):
                ctx.fail("history-dependent", f"text {ti} selection {sel} ({how}): instrument_tracks iterates "
                                              f"as {r.get('order')} here but as {b.get('order')} in a fresh "
                                              f"interpreter", rc)
            elif r.get("rendered") != b.get("rendered"):
                ctx.fail("history-dependent", f"text {ti} selection {sel} ({how}): str()/repr() of the chart "
                                              f"differ from the fresh-interpreter parse", rc)
            if r.get("eq_first") is False:
                ctx.fail("repeat-not-equal", f"text {ti} selection {sel} ({how}): chart != the chart "
                                             f"parsed earlier from the same text in this process", rc)
        elif _norm_exc(r["exc"]) != _norm_exc(b["exc"]):
            ctx.fail("history-dependent", f"text {ti} ({how}): raised {r['exc']!r} in the history but "
                                          f"{b['exc']!r} alone", rc)
    n_threads = sum(1 for op in ops if op[0] == "threads")
    switches = sum(r.get("stats", {}).get("switches", 0) for r in res["results"] if "threads" in r)
    distinct_texts = len({texts[ti] for ti, _, _ in fops})
    ctx.note([texts, ops], nontrivial=len(fops) >= 3 and distinct_texts >= 2 and (n_fail > 0 or n_threads > 0),
             classes=[f"parses_{min(len(fops), 12)}", f"failing_{min(n_fail, 3)}",
                      f"thread_rules_{min(n_threads, 3)}"] + (["coop_switches>100"] if switches > 100 else []),
             sample={"n_texts": len(texts), "ops": ops[:8], "first_text_head": texts[0][:200],
                     "coop_switches": switches})
    ctx.evaluations += len(fops) - 1
    ctx.classes["coop_switches_total"] += switches


# ------------------------------------------------------------------------------------------------
def variant(draw, base_spec, all_specs) -> tuple[str, str]:
    """Returns (kind, text) — a chart text related to ``base_spec``."""
    kind = draw(st.sampled_from(["res", "res", "sustain", "content", "invalid_forced", "invalid_nores",
                                 "invalid_header", "invalid_dup_tempo", "invalid_midway", "invalid_midway",
                                 "song_dup", "song_dup", "song_perm", "same", "unrelated", "same_size", "same_size",
                                 "twin_track", "twin_track", "twin_events", "unknown_section", "unknown_section",
                                 "fewer_sections", "other_headers", "sync_extreme", "sync_extreme"]))
    spec = copy.deepcopy(base_spec)
    if kind == "res":
        res = spec["res"]
        new = draw(st.sampled_from([res + 1, res + 2, max(1, res - 1), res * 2, 96, 100, 192, 480, 1, 5]))
        spec["res"] = new
        thr = hopo_threshold(new)
        h = draw(st.sampled_from(["EasySingle", "ExpertSingle", "HardDoubleBass"]))
        t = 0
        items = []
        for k, gap in enumerate([0, max(thr, 1), thr + 1, max(thr - 1, 1), thr + 1, max(thr, 1)]):
            t += gap
            items.append([t, "N", k % 5, 0])
        spec["tracks"][h] = items
    elif kind == "sustain":
        h = draw(st.sampled_from(["MediumSingle", "ExpertSingle"]))
        a, b, c = draw(st.integers(1, 50)), draw(st.integers(51, 99)), draw(st.integers(100, 150))
        items = []
        for k, lens in enumerate([(a, b), (a, c), (a, a), (b, a), (0, a), (a, 0), (a, b)]):
            items += [[k * 200, "N", 0, lens[0]], [k * 200, "N", 1 + k % 4, lens[1]]]
        spec["tracks"][h] = items
    elif kind == "content":
        for h, items in spec["tracks"].items():
            spec["tracks"][h] = [[it[0], it[1], (it[2] + 1) % 5, it[3]] if it[1] == "N" and it[2] < 5 else it
                                 for it in items]
        spec["events"] = [[e[0], e[1] + "!"] for e in spec["events"]]
        spec["song"] = [["Name", '"other"'], ["Offset", "5"], ["Player2", "rhythm"], ["Genre", '"pop"']]
    elif kind in ("twin_track", "twin_events"):
        # byte-identical lines that mean different things in different sections, spread over DIFFERENT charts:
        # '  0 = E "phrase_start"' is a global text event in [Events] and a track event (word with quotes) in an
        # instrument section
        spec["fmt"] = 0
        spec.pop("nl", None)
        if kind == "twin_track":
            h = next(iter(spec["tracks"]), "ExpertSingle")
            spec["tracks"][h] = [[0, "E", '"phrase_start"'], [0, "E", '"solo"']] + list(spec["tracks"].get(h, []))
            spec["events"] = [e for e in spec["events"] if e[1] not in ("phrase_start", "solo")]
        else:
            spec["events"] = [[0, "phrase_start"], [0, "solo"]] + list(spec["events"])
    elif kind == "unknown_section":
        # the SET of section names differs from chart to chart: sections no parser knows come ...
        name = draw(st.sampled_from(["PART VOCALS", "Lighting", "Foo", "ExpertVocals", "Events2", "song", "Venue"]))
        body = draw(st.sampled_from([[], ["0 = E \"x\""], ["garbage"], ["0 = N 0 0", "5 = S 2 9"]]))
        spec["raw_sections"] = [list(x) for x in spec.get("raw_sections", [])] + [[name, body]]
        spec.pop("order", None)
    elif kind == "fewer_sections":
        # ... and go: nothing but the required sections and at most one track
        spec["raw_sections"] = []
        spec["tracks"] = dict(list(spec["tracks"].items())[:1])
        spec.pop("order", None)
    elif kind == "other_headers":
        hs = [h for h in S.HEADER_LIST if h not in spec["tracks"]]
        k = draw(st.integers(0, len(hs) - 1))
        spec["tracks"] = {hs[(k + 7 * j) % len(hs)]: items for j, items in enumerate(spec["tracks"].values())}
        spec.pop("order", None)
    elif kind == "sync_extreme":
        # corner values in [SyncTrack] (whatever a parse learns from one chart must not colour the next):
        # time-signature exponents up to 16, numerators 0 / 255, extreme tempos, anchors
        last = max(it[0] for it in spec["sync"])
        spec["sync"] = list(spec["sync"]) + [
            [last + 1, "TS", draw(st.sampled_from([7, 0, 255, 3])), draw(st.sampled_from([7, 8, 16, 0, 6]))],
            [last + 2, "TS", 4, draw(st.sampled_from([None, 3, 7]))],
            [last + 3, "B", draw(st.sampled_from([1, 10 ** 9, 999, 120000]))],
            [last + 3, "A", draw(st.sampled_from([0, 1, 10 ** 12]))]]
    elif kind == "same_size":
        # another chart whose text has exactly the same length (one lane digit changed)
        for h, items in spec["tracks"].items():
            for it in items:
                if it[1] == "N" and it[2] < 4:
                    it[2] += 1
                    break
            else:
                continue
            break
    elif kind in ("song_dup", "song_perm"):
        # [Song] variants: the same fields on other lines, or a field written TWICE (the first line wins;
        # which line that is must not depend on what was parsed before)
        song = [list(x) for x in (spec.get("song") or [])]
        if len(song) < 4:
            song = [["Name", '"n1"'], ["Artist", '"a1"'], ["Resolution", str(spec["res"])], ["Charter", '"c1"'],
                    ["Album", '"al1"']]
        if kind == "song_perm":
            song = list(draw(st.permutations(song)))
        else:
            idx = [k for k, x in enumerate(song) if x[0] != "Resolution"]
            j = draw(st.sampled_from(idx))
            i = draw(st.sampled_from(idx))
            if i != j:
                val = '"dup_%d"' % j if song[i][1].startswith('"') else ("7" if song[i][1] != "7" else "8")
                if song[i][0] == "Player2":
                    val = "rhythm" if song[i][1] == "bass" else "bass"
                song[j] = [song[i][0], val]
        spec["song"] = song
    elif kind == "invalid_forced":
        h = next(iter(spec["tracks"]), "ExpertSingle")
        spec["tracks"][h] = [[0, "N", 0, 0], [0, "N", 5, 0]] + [it for it in spec["tracks"].get(h, []) if it[0] > 0]
    elif kind == "invalid_nores":
        spec["res"] = None
        spec["song"] = [["Name", '"x"']]
    elif kind == "invalid_header":
        return kind, "garbage first line\n" + S.render(spec)
    elif kind == "invalid_midway":
        # a parse that fails in the MIDDLE of building some event list (after partial work was done):
        # an event whose tick runs backwards across a tempo change raises ValueError from the lookup
        last_b = max(it[0] for it in spec["sync"] if it[1] == "B")
        t2 = max([it[0] for it in spec["sync"]] + [e[0] for e in spec["events"]]
                 + [it[0] + (it[3] if it[1] in ("N", "S") else 0)
                    for items in spec["tracks"].values() for it in items] + [last_b]) + 50
        spec["sync"] = spec["sync"] + [[t2, "B", 77000]]
        where = draw(st.sampled_from(["notes", "notes", "phrases", "track_events", "global", "ts"]))
        if spec.get("res") and draw(st.booleans()):
            spec["res"] = draw(st.sampled_from([spec["res"] + 1, 480, 96, 100, 193]))
        h = next(iter(spec["tracks"]), "ExpertSingle")
        items = list(spec["tracks"].get(h, []))
        if where == "notes":
            items += [[t2 + 10, "N", 0, 0], [t2 + 90, "N", 1, 0], [t2 + 170, "N", 2, 0], [3, "N", 3, 0]]
        elif where == "phrases":
            items += [[t2 + 10, "N", 0, 0], [t2 + 10, "S", 2, 5], [2, "S", 2, 5]]
        elif where == "track_events":
            items += [[t2 + 10, "E", "solo"], [2, "E", "soloend"]]
        elif where == "global":
            spec["events"] = spec["events"] + [[t2 + 5, "section late"], [1, "section early"]]
        else:
            spec["sync"] = spec["sync"] + [[t2 + 5, "TS", 3], [1, "TS", 5]]
        spec["tracks"][h] = items
    elif kind == "invalid_dup_tempo":
        spec["sync"] = spec["sync"] + [[spec["sync"][-1][0], "B", 100000], [0, "B", 1]]
    elif kind == "unrelated":
        return kind, S.render(draw(G.chart_specs(max_segments=3, max_tracks=2, max_notes=6, max_events=2,
                                                 max_ts=1, max_anchors=0))["spec"])
    return kind, S.render(spec)


def drive_machine(ctx: Ctx) -> None:
    n_examples = ctx.pick(25, 150)
    baselines: dict = {}

    class ParseHistory(RuleBasedStateMachine):
        def __init__(self):
            super().__init__()
            self.specs = []
            self.case = {"texts": [], "ops": []}

        @initialize(c=G.chart_specs(max_segments=3, max_tracks=2, min_tracks=1, max_notes=8, max_events=3,
                                    max_ts=1, max_anchors=1, min_notes=2))
        def setup(self, c):
            self.base = c["spec"]
            if len(self.base.get("song") or []) < 4:
                self.base = dict(self.base, song=[["Name", '"n1"'], ["Artist", '"a1"'],
                                                  ["Resolution", str(self.base["res"])], ["Charter", '"c1"'],
                                                  ["Album", '"al1"']])
            if len(self.base["events"]) % 2 == 0:
                # canonical layout and two well-known one-word global events (see the twin_track variant)
                self.base = dict(self.base, fmt=0, events=[[0, "phrase_start"], [0, "solo"]] + list(self.base["events"]))
                self.base.pop("nl", None)
            self.case["texts"].append(S.render(self.base))

        @precondition(lambda self: len(self.case["texts"]) < 8)
        @rule(data=st.data())
        def add_text(self, data):
            kind, text = variant(data.draw, self.base, self.specs)
            if text not in self.case["texts"]:
                self.case["texts"].append(text)
            ctx.classes[f"variant_{kind}"] += 1

        @precondition(lambda self: len(self.case["ops"]) >= 2 and self.case["ops"][-1] != ["forget"])
        @rule()
        def forget(self):
            # the client lets go of the charts parsed so far
            self.case["ops"].append(["forget"])

        def _sel(self, data, ti):
            if data.draw(st.integers(0, 2)) != 0:
                return None
            import re
            present = [h for h in re.findall(r"^\[(.+)\]$", self.case["texts"][ti], flags=re.M) if h in S.HEADERS]
            pool = (present * 3 + ["ExpertSingle", "EasySingle", "ExpertDrums"]) or ["ExpertSingle"]
            return data.draw(st.lists(st.sampled_from(pool), max_size=4))

        @rule(data=st.data(), i=st.integers(0, 7))
        def parse(self, data, i):
            ti = i % len(self.case["texts"])
            self.case["ops"].append(["parse", ti, self._sel(data, ti)])

        @rule(data=st.data(), i=st.integers(0, 7), slot=st.integers(0, 1))
        def parse_path(self, data, i, slot):
            ti = i % len(self.case["texts"])
            # only texts without CR / BOM oddities are guaranteed to read back identically through a file
            if "\r" in self.case["texts"][ti] or not self.case["texts"][ti].isascii():
                return
            self.case["ops"].append(["parse_path", ti, self._sel(data, ti), slot])

        @rule(data=st.data(), i=st.integers(0, 7), slot=st.integers(0, 1), again=st.booleans())
        def replace_file_same_size(self, data, i, slot, again):
            # the file at one path is replaced by ANOTHER chart of exactly the same length (and, through the
            # worker, the same modification time) and read again by path
            import re
            ti = i % len(self.case["texts"])
            a = self.case["texts"][ti]
            if "\r" in a or not a.isascii() or len(self.case["texts"]) >= 9:
                return
            m = re.search(r" = N ([0-3]) ", a)
            if not m:
                return
            b = a[:m.start(1)] + str(int(m.group(1)) + 1) + a[m.end(1):]
            if b not in self.case["texts"]:
                self.case["texts"].append(b)
            tj = self.case["texts"].index(b)
            sel = self._sel(data, ti)
            self.case["ops"] += [["parse_path", ti, sel, slot], ["parse_path", tj, sel, slot]]
            if again:
                self.case["ops"].append(["parse_path", ti, sel, slot])

        @rule(data=st.data(), idx=st.lists(st.integers(0, 7), min_size=2, max_size=4),
              mode=st.sampled_from(os.environ.get("CPV_C17_MODES", "coop,coop,os").split(",")),
              schedule=st.lists(st.tuples(st.integers(0, 3), st.sampled_from([1, 1, 2, 3, 5, 17, 100, 1000])),
                                min_size=1, max_size=40))
        def parse_threads(self, data, idx, mode, schedule):
            n_texts = len(self.case["texts"])
            items = [[i % n_texts, self._sel(data, i % n_texts)] for i in idx]
            self.case["ops"].append(["threads", items, mode, [list(s) for s in schedule]])

        def teardown(self):
            if self.case["ops"]:
                ctx.current = self.case
                check_history(ctx, self.case, baselines)

    try:
        run_machine(ctx, "machine", ParseHistory, n_examples, step_count=ctx.pick(10, 16), shrink=False)
    except Violation as v:
        # Hypothesis' shrinker would need hundreds of interpreter launches; reduce greedily instead.
        case = v.case if isinstance(v.case, dict) and "ops" in v.case else None
        if case is None:
            raise
        check_name = v.check
        ops = list(case["ops"])
        i = 0
        while i < len(ops) and len(ops) > 1:
            cand = ops[:i] + ops[i + 1:]
            probe = Ctx(ctx.prop, ctx.part, ctx.tier, ctx.seed, ctx.shard, ctx.nshards, ctx.known, replay=True)
            try:
                check_history(probe, {"texts": case["texts"], "ops": cand})
            except Violation as v2:
                if v2.check == check_name:
                    ops = cand
                    continue
            except core.HarnessError:
                pass
            i += 1
        small = {"texts": case["texts"], "ops": ops}
        probe = Ctx(ctx.prop, ctx.part, ctx.tier, ctx.seed, ctx.shard, ctx.nshards, ctx.known, replay=True)
        try:
            check_history(probe, small)
        except Violation as v3:
            raise v3
        raise


# ------------------------------------------------------------------------------------------------
def fixed_cases(ctx: Ctx):
    a = {"res": 192, "sync": [[0, "TS", 4], [0, "B", 120000]], "events": [[0, "section a"]],
         "tracks": {"ExpertSingle": [[0, "N", 0, 0], [64, "N", 1, 0], [129, "N", 2, 0], [200, "N", 0, 10],
                                     [200, "N", 1, 20]]}}
    b = copy.deepcopy(a)
    b["res"] = 193
    c = copy.deepcopy(a)
    c["tracks"]["ExpertSingle"] = [[0, "N", 0, 0], [0, "N", 5, 0]]
    texts = [S.render(a), S.render(b), S.render(c), "x"]
    ops = [["parse", 0, None], ["parse", 1, None], ["parse", 2, None], ["parse", 0, None], ["parse", 3, None],
           ["parse", 1, ["ExpertSingle"]], ["threads", [[0, None], [1, None], [0, None]], "coop",
                                           [[0, 3], [1, 5], [2, 2], [1, 1]]],
           ["threads", [[1, None], [0, None]], "os", []], ["parse", 0, None]]
    yield {"texts": texts, "ops": ops}
    yield {"texts": list(reversed(texts)), "ops": [["parse", 3, None], ["parse", 2, None],
                                                   ["threads", [[3, None], [2, None]], "coop", [[0, 1], [1, 1]]]]}
    # two charts that differ in nothing but the resolution, chosen so that the strum/HOPO outcome differs
    # (threshold 64 vs 32 ticks); sequentially in both orders, then interleaved at several granularities
    # (the cooperative schedule repeats, so the two parses alternate from their first to their last line)
    d = copy.deepcopy(a)
    d["res"] = 96
    e = copy.deepcopy(a)
    e["res"] = 480
    texts2 = [S.render(a), S.render(d), S.render(e)]
    yield {"texts": texts2, "ops": [["parse", 0, None], ["parse", 1, None], ["parse", 0, None], ["parse", 2, None],
                                    ["parse", 1, None]]}
    for run in (1, 5, 17, 100, 1000):
        yield {"texts": texts2, "ops": [["threads", [[0, None], [1, None]], "coop", [[0, run], [1, run]]],
                                        ["threads", [[1, None], [2, None], [0, None]], "coop",
                                         [[0, run], [1, run + 3], [2, run]]]]}
    yield {"texts": texts2, "ops": [["threads", [[0, None], [1, None], [2, None], [1, None]], "os", []]]}
    # [Song] sections in which a field is written twice (the first line counts), after charts that carry the same
    # field on the line index of the SECOND occurrence; and charts that share a long, byte-identical instrument
    # section but differ in their tempo maps (what one parse remembers about lines or sections by position or by
    # text must not colour the next)
    def with_song(song, tempo2=90000, long_track=False):
        sp = copy.deepcopy(a)
        sp["song"] = song
        sp["sync"] = [[0, "TS", 4], [0, "B", 120000], [96, "B", tempo2]]
        if long_track:
            sp["tracks"] = {"ExpertSingle": [[k * 48, "N", k % 5, 0 if k % 3 else 20] for k in range(80)]}
        return S.render(sp)
    s1 = [["Artist", '"a1"'], ["Charter", '"c1"'], ["Resolution", "192"], ["Name", '"from A"'], ["Offset", "4"]]
    s2 = [["Name", '"first"'], ["Offset", "1"], ["Resolution", "192"], ["Name", '"second"'], ["Offset", "2"]]
    s3 = [["Offset", "7"], ["Name", '"n3"'], ["Resolution", "192"], ["Artist", '"x"'], ["Artist", '"y"']]
    dup_texts = [with_song(s1), with_song(s2), with_song(s3), with_song(s2, long_track=True),
                 with_song(s1, tempo2=200000, long_track=True), with_song(s3, tempo2=60000, long_track=True)]
    yield {"texts": dup_texts, "ops": [["parse", i, None] for i in (0, 1, 2, 1, 0, 2, 1)]}
    yield {"texts": dup_texts, "ops": [["parse", i, None] for i in (3, 4, 5, 3, 5, 4, 0, 3)]}
    yield {"texts": dup_texts, "ops": [["parse", i, None] for i in (5, 4, 3, 2, 1, 0)]}
    # a chart whose event times are exact half microseconds (120 BPM at 192 ticks per beat: ticks = 3 mod 6), with
    # even and odd integer parts: how such a tie is rounded must not depend on the thread a parse runs on
    tie = {"res": 192, "sync": [[0, "TS", 4], [0, "B", 120000], [600, "B", 96000]],
           "events": [[t, f"section s{t}"] for t in (3, 9, 15, 21, 27, 603, 610)],
           "tracks": {"ExpertSingle": [[t, "N", t % 5, 6] for t in (3, 9, 15, 21, 27, 33, 39, 605, 615)]}}
    tie_texts = [S.render(tie), S.render(a)]
    yield {"texts": tie_texts, "ops": [["parse", 0, None], ["threads", [[0, None], [1, None]], "coop", [[0, 5], [1, 5]]],
                                       ["threads", [[0, None], [0, None], [1, None]], "os", []], ["parse", 0, None]]}
    yield {"texts": tie_texts, "ops": [["threads", [[0, None]], "os", []], ["threads", [[0, None]], "coop", [[0, 9]]]]}
    # charts with LONG tempo maps of equal length but other ticks, alternating with charts of that kind that fail
    # after their [SyncTrack] was read (their objects are released at once, so that a later chart's objects come to
    # lie at the same addresses): whatever a parse keeps about an object must not outlive the object
    def long_map(n, step, off, fail=False, extra=0):
        sync = [[0, "TS", 4]] + [[(k * step + off) if k else 0, "B", 60000 + 1000 * ((k * 7 + extra) % 50)] for k in range(n)]
        last = (n - 1) * step + off
        inside = [k * step + off + step // 2 for k in (3, 11, 12, 20, 31, n - 2)]
        ev = [[t, f"section s{t}"] for t in inside] + [[last + 10, "section a"], [last + 500, "section b"]] + \
             ([[5, "section early"]] if fail else [])
        notes = [[t + 1, "N", j % 5, step] for j, t in enumerate(inside)] + [[last + 20, "N", 0, 0], [last + 400, "N", 1, 30]]
        return S.render({"res": 192, "sync": sync, "events": ev, "tracks": {"ExpertSingle": notes}})
    longs = [long_map(40, 100, 0), long_map(40, 100, 7, fail=True), long_map(40, 90, 3), long_map(40, 110, 1, fail=True),
             long_map(40, 100, 50, extra=3), long_map(33, 64, 5), long_map(33, 64, 9, fail=True), long_map(33, 70, 0)]
    nl = len(longs)
    yield {"texts": longs, "ops": [["parse", i % nl, None] for i in range(2 * nl)]}
    yield {"texts": longs, "ops": [["parse", i, None] for i in (1, 0, 3, 2, 1, 4, 3, 0, 6, 5, 6, 7, 6, 5)]}
    yield {"texts": longs, "ops": [["parse", i, None] for i in (1, 3, 1, 3, 0, 1, 2, 3, 4, 6, 7, 6, 5)]}
    # ... and a client that lets go of each chart before it parses the next one
    seq = []
    for i in (0, 2, 0, 4, 2, 1, 0, 5, 7, 5, 6, 7, 2, 4, 0):
        seq += [["parse", i, None], ["forget"]]
    yield {"texts": longs, "ops": seq}
    # (where an object comes to lie is up to the allocator: many short-lived charts make a meeting likely)
    cyc = (0, 2, 4, 2, 0, 4, 4, 0, 5, 7, 5, 2)
    yield {"texts": longs, "ops": [x for r in range(8) for i in cyc for x in (["parse", i, None], ["forget"])]}
    # numbers beyond the interpreter's limit for str -> int conversion (4300 digits), one chart per place where the
    # format carries a number.  Each of them is refused when parsed alone; what one of them makes a parser do
    # (raise a process-wide limit, say) must not decide the fate of the next
    big = "7" * 4999
    base_txt = S.render(a)
    huge = [base_txt.replace("  200 = N 0 10\n", f"  200 = N 0 {big}\n"),
            base_txt.replace("  Resolution = 192\n", f"  Resolution = 192\n  Offset = {big}\n"),
            base_txt.replace("  0 = TS 4\n", f"  0 = TS 4\n  5 = TS {big}\n"),
            base_txt.replace("  200 = N 0 10\n", f"  200 = N 0 10\n  200 = S 2 {big}\n"),
            base_txt.replace("  0 = B 120000\n", f"  0 = B 120000\n  9 = A {big}\n"),
            base_txt.replace("  200 = N 0 10\n", f"  200 = N 0 10\n  200 = N 6 {big}\n"),
            base_txt]
    assert all(t != base_txt for t in huge[:-1]), "fixed C17 texts: a replacement did not apply"
    nh = len(huge)
    yield {"texts": huge, "ops": [["parse", i, None] for i in range(nh)] + [["parse", i, None] for i in range(nh)]}
    yield {"texts": huge, "ops": [["parse", i, None] for i in reversed(range(nh))] + [["parse", 1, None], ["parse", 2, None]]}
    # numeric twins: charts that are the same but for every tick >= 1 being moved up by an amount under which
    # DIFFERENT integers collide in some machine representation: 2^61 - 1 (CPython's hash modulus: hash(n) ==
    # hash(n + 2^61 - 1)), 2^32 / 2^64 (truncation to a machine word), 2^53 (float(n) == float(n + 1)).  Under a
    # tempo of 10^12 BPM every time stays far inside the timedelta range.  Whatever one parse leaves behind
    # (a memo keyed on a hash, on a float, on a truncated integer) must not colour the twin's times.
    def shifted(k):
        sh = lambda t: t + k if t >= 1 else t  # noqa: E731
        return {"res": 192,
                "sync": [[0, "TS", 4], [0, "B", 10 ** 15], [sh(96), "B", 2 * 10 ** 15], [sh(300), "TS", 3, 3]],
                "events": [[sh(96), "section a"], [sh(200), "lyric la"]],
                "tracks": {"ExpertSingle": [[sh(96), "N", 0, 50], [sh(96), "S", 2, 150], [sh(200), "N", 1, 0],
                                            [sh(200), "E", "solo"], [sh(260), "N", 2, 7], [sh(260), "N", 3, 9]]}}
    m61 = 2 ** 61 - 1
    offs = [0, m61, 2 * m61, 2 ** 61, 2 ** 32, 2 ** 64, 2 ** 53, 2 ** 53 + 1, 2 ** 63]
    texts3 = [S.render(shifted(k)) for k in offs]
    n3 = len(texts3)
    yield {"texts": texts3, "ops": [["parse", i, None] for i in range(n3)] + [["parse", 0, None]]}
    yield {"texts": texts3, "ops": [["parse", i, None] for i in reversed(range(n3))] + [["parse", n3 - 1, None]]}
    yield {"texts": texts3, "ops": [["parse", i, None] for i in (1, 0, 2, 0, 5, 0, 7, 6, 0)]}
    yield {"texts": texts3, "ops": [["threads", [[0, None], [1, None], [2, None]], "coop", [[0, 7], [1, 7], [2, 7]]],
                                    ["threads", [[6, None], [7, None]], "coop", [[0, 3], [1, 3]]]]}


PARTS: list[Part] = [
    enum_part("fixed", fixed_cases, check_history, {"quick": 4, "thorough": 4}),
    custom_part("machine", drive_machine, check_history, {"quick": 12, "thorough": 16}),
]
