"""C10 — metadata fields decode independently, verbatim, with documented defaults."""
from __future__ import annotations

from hypothesis import strategies as st

from cpverif import model as M
from cpverif import strategies as G
from cpverif.core import Ctx, Part, enum_part, hyp_part
from cpverif.lib import L
from cpverif.observe import obs_metadata

RULE = (
    "Hypothesis [Song] bodies: a subset of the 23 optional fields (the empty and the full subset and every "
    "single field are enumerated each run), a drawn permutation of the lines, blank/tab padding; string "
    "values non-empty, assembled from fragments {'\"', '=', ' = ', every field name, whole foreign "
    "lines such as 'Resolution = 5' or 'Artist = \"x\"', leading/trailing/only blanks, non-ASCII}, "
    "written quoted as Moonscraper does; integers as digit strings of 1..30 digits; Player2 in "
    "{bass, rhythm}; Resolution present or absent. Decoded through Metadata.from_chart_lines and, for "
    "part of the cases, Chart.from_file. Oracle: reference decoder (strip one pair of quotes, int(), "
    "enumeration member) + defaults table hard-coded from the documentation; absent Resolution => "
    "MissingRequiredField. Metamorphic non-interference: deleting or rewriting field X's line changes X "
    "only; Resolution + one generated line sets exactly that field. Non-trivial iff >= 3 optional "
    "fields in non-canonical order with >= 1 adversarial value (contains a quote, '=' or a field "
    "name); distinct = distinct body."
    ' part blocks: the [Song] section slid character by character across multiples of 512..65536 (thorough ..1 MiB) behind an unrecognised filler section (LF and CRLF); the decoded fields must not depend on the position. A body without Resolution is also offered through Chart.from_file / from_filepath.'
)
ASSUMPTIONS = [
    "empty strings are outside the quantifier; integers unquoted and non-negative; one line per field; "
    "string values are written with their surrounding quotes",
]

OPTIONAL = [f for f in M.FIELDS if f[0] != "Resolution"]
NAMES = [f[0] for f in M.FIELDS]
VFRAGS = ['"', "=", " = ", " ", "  ", "\t", "é", "漢字", "x", "The Song", ", 2018", "song.ogg", "rock", "0",
          "Resolution = 5", 'Artist = "x"', "Offset = 7", "Player2 = rhythm", "bass", "\\", "'", "[Song]",
          "{", "}", '\\"', '\\"x', "[Events]", "// x", "# x", "; x",
          # values that carry what OTHER fields usually hold (a year, an artist, a stream, a number): each field is
          # decoded from its own line only
          "(1988)", "One (1988)", "(2004) ", "1988", ", 1988", "[rock]", "Artist - Song", " - ", "(feat. x)", "120 BPM",
          "192", "rhythm", "Song (Live)", "(c) 2020", "2020-01-01", "v1.2", "#1", "Track 01"] + NAMES + G.UNICODE_ODDITIES + G.MARKUP_ODDITIES + G.WRAPPED
str_values = st.one_of(
    st.lists(st.sampled_from(VFRAGS), min_size=1, max_size=4).map("".join),
    st.text(alphabet=st.characters(min_codepoint=32, max_codepoint=0x2FF,
                                   blacklist_characters=G.LINE_BREAKS + "\x1f",
                                   blacklist_categories=("Cc", "Cs", "Zl", "Zp")), min_size=1, max_size=20),
    st.sampled_from(['"', '""', " ", "a ", " a", 'a"', '"a', 'a" ', "Name = ", '" "']),
).filter(lambda s: len(s) > 0)
int_values = st.one_of(st.integers(0, 10 ** 6).map(str), st.integers(0, 10 ** 30).map(str),
                       st.builds(lambda z, n: "0" * z + str(n), st.integers(1, 3), st.integers(0, 999)))
_pad_l = st.sampled_from(["  ", "  ", "", " ", "\t", "    "])
_pad_r = st.sampled_from(["", "", "", " ", "  ", "\t"])


def _value_for(kind):
    if kind == "int":
        return int_values
    if kind == "p2":
        return st.sampled_from(["bass", "rhythm"])
    return str_values


@st.composite
def _bodies(draw, ctx):
    mode = draw(st.integers(0, 9))
    if mode == 0:
        chosen = list(OPTIONAL)
    else:
        chosen = draw(st.lists(st.sampled_from(OPTIONAL), unique=True, max_size=len(OPTIONAL)))
    has_res = draw(st.integers(0, 7)) != 0
    fields = []
    for pascal, snake, kind, default in chosen:
        fields.append([pascal, draw(_value_for(kind)), draw(_pad_l), draw(_pad_r)])
    # coincidences between fields: one field's value written again under another field of the same kind
    for kind in ("str", "int"):
        same = [k for k, f in enumerate(fields) if M.FIELD_BY_PASCAL[f[0]][2] == kind]
        if len(same) >= 2 and draw(st.integers(0, 3)) == 0:
            i, j = draw(st.sampled_from(same)), draw(st.sampled_from(same))
            fields[j][1] = fields[i][1]
    if has_res:
        res_v = draw(st.one_of(st.sampled_from(["192", "480", "100"]), int_values))
        fields.append(["Resolution", res_v, draw(_pad_l), draw(_pad_r)])
    fields = draw(st.permutations(fields)) if len(fields) > 1 else fields
    target = draw(st.integers(0, max(0, len(chosen) - 1)))
    new_value = None
    if chosen:
        kind = M.FIELD_BY_PASCAL[chosen[target][0]][2]
        new_value = draw(_value_for(kind))
    from cpverif import spec as S_
    # the rest of the file must not matter to [Song]: a few instrument sections ride along
    sections = draw(st.lists(st.sampled_from(S_.HEADER_LIST + ["ExpertDoubleRhythm", "EasyDoubleBass", "ExpertDrums",
                                                               "HardGHLGuitar", "ExpertKeyboard"]),
                             unique=True, max_size=4))
    return {"fields": [list(f) for f in fields], "target": chosen[target][0] if chosen else None,
            "new_value": new_value, "via_chart": draw(st.integers(0, 2)) == 0, "sections": sections}


def strat_bodies(ctx: Ctx):
    return _bodies(ctx)


def _line(pascal, value, lp="  ", rp=""):
    kind = M.FIELD_BY_PASCAL[pascal][2]
    raw = f'"{value}"' if kind == "str" else value
    return f"{lp}{pascal} = {raw}{rp}"


def _expected(fields) -> dict:
    out = {}
    given = {f[0]: f[1] for f in fields}
    for pascal, snake, kind, default in M.FIELDS:
        if pascal in given:
            v = given[pascal]
            out[snake] = int(v) if kind == "int" else v.upper() if kind == "p2" else v
        else:
            out[snake] = default
    return out


def _decode(ctx, lines, via_chart, rc, sections=()):
    """Returns the observed metadata dict, 'MISSING' for MissingRequiredField, or None after a
    reported violation."""
    try:
        if via_chart == "path":
            # read by path from a folder that looks like a real song folder (audio, ini and image files next
            # to the chart): [Song] decoding is a function of the [Song] lines only
            import os
            import tempfile
            from pathlib import Path
            from cpverif import core
            text = "[Song]\n{\n" + "".join(ln + "\n" for ln in lines) + \
                   "}\n[SyncTrack]\n{\n  0 = TS 4\n  0 = B 120000\n}\n[Events]\n{\n}\n"
            with tempfile.TemporaryDirectory(dir=core.work_dir()) as d:
                for name in ("song.ogg", "guitar.ogg", "rhythm.ogg", "drums.ogg", "song.ini", "album.png",
                             "notes.mid", "crowd.ogg", "vocals.ogg", "keys.ogg", "bass.ogg", "preview.ogg"):
                    with open(os.path.join(d, name), "wb") as f:
                        f.write(b"x")
                with open(os.path.join(d, "song.ini"), "w") as f:
                    f.write("[song]\nname = Other\nartist = Other\ndelay = 99\ndiff_guitar = 5\n")
                with open(os.path.join(d, "notes.chart"), "w", encoding="utf-8", newline="") as f:
                    f.write(text)
                md = L.Chart.from_filepath(Path(os.path.join(d, "notes.chart"))).metadata
        elif via_chart:
            text = "[Song]\n{\n" + "".join(ln + "\n" for ln in lines) + \
                   "}\n[SyncTrack]\n{\n  0 = TS 4\n  0 = B 120000\n}\n[Events]\n{\n  0 = E \"section a\"\n}\n" + \
                   "".join(f"[{h}]\n{{\n  0 = N 0 0\n  96 = N 7 0\n  96 = E solo\n}}\n" for h in sections)
            md = L.parse(text).metadata
        else:
            md = L.Metadata.from_chart_lines(lines)
    except L.MissingRequiredField as e:
        return ("MISSING", getattr(e, "field_name", None))
    except Exception as e:  # noqa: BLE001
        ctx.fail("metadata-parses", f"[Song] body rejected: {type(e).__name__}: {e}", rc)
        return None
    return obs_metadata(md)


def check_body(ctx: Ctx, case) -> None:
    fields = case["fields"]
    lines = [_line(*f) for f in fields]
    has_res = any(f[0] == "Resolution" for f in fields)
    res_val = next((int(f[1]) for f in fields if f[0] == "Resolution"), None)
    # (a body without Resolution is also offered through Chart.from_file / from_filepath: the documented error
    # is the same whichever public entry point reads the [Song] section)
    via_chart = bool(case.get("via_chart")) and (not has_res or 0 < res_val <= 10 ** 6)
    if via_chart and len(lines) % 2 == 0:
        via_chart = "path"
    rc = {"lines": lines, "via_chart": via_chart, "sections": case.get("sections") or []}
    got = _decode(ctx, lines, via_chart, rc, case.get("sections") or ())
    if got is None:
        return
    if not has_res:
        if not (isinstance(got, tuple) and got[0] == "MISSING"):
            ctx.fail("missing-resolution", f"body without Resolution was accepted: {got}", rc)
        elif got[1] != "resolution":
            ctx.fail("missing-resolution", f"MissingRequiredField names {got[1]!r}", rc)
        ctx.note(lines, nontrivial=len(fields) >= 3, classes=["no_resolution"])
        return
    if isinstance(got, tuple):
        ctx.fail("metadata-parses", "MissingRequiredField although a Resolution line is present", rc)
        return
    want = _expected(fields)
    if got != want:
        bad = {k: (got[k], want[k]) for k in want if got[k] != want[k]}
        ctx.fail("field-values", f"decoded fields differ (got, expected): {bad!r}", rc)
        return
    # metamorphic non-interference on the target field
    tgt = case.get("target")
    if tgt:
        snake, kind, default = M.FIELD_BY_PASCAL[tgt][1:]
        without = [f for f in fields if f[0] != tgt]
        g2 = _decode(ctx, [_line(*f) for f in without], False, dict(rc, deleted=tgt))
        if g2 is None:
            return
        w2 = dict(want)
        w2[snake] = default
        if g2 != w2:
            bad = {k: (g2[k], w2[k]) for k in w2 if g2[k] != w2[k]}
            ctx.fail("delete-changes-only-that-field", f"deleting the {tgt} line gave (got, expected) "
                                                       f"{bad!r}", dict(rc, deleted=tgt))
        rewritten = [[f[0], case["new_value"], f[2], f[3]] if f[0] == tgt else f for f in fields]
        g3 = _decode(ctx, [_line(*f) for f in rewritten], False, dict(rc, rewritten=tgt))
        if g3 is None:
            return
        w3 = _expected(rewritten)
        if g3 != w3:
            bad = {k: (g3[k], w3[k]) for k in w3 if g3[k] != w3[k]}
            ctx.fail("rewrite-changes-only-that-field", f"rewriting {tgt} to {case['new_value']!r} gave "
                                                        f"(got, expected) {bad!r}",
                     dict(rc, rewritten=tgt, new_value=case["new_value"]))
        # Resolution + this one line sets exactly one optional field
        one = next(f for f in fields if f[0] == tgt)
        g4 = _decode(ctx, ["  Resolution = 192", _line(*one)], False, dict(rc, single=tgt))
        if g4 is None:
            return
        w4 = _expected([["Resolution", "192"], one])
        if g4 != w4:
            bad = {k: (g4[k], w4[k]) for k in w4 if g4[k] != w4[k]}
            ctx.fail("one-line-one-field", f"'Resolution' + the {tgt} line gave (got, expected) {bad!r}",
                     dict(rc, single=tgt))
    opt = [f for f in fields if f[0] != "Resolution"]
    canon = [p for p in NAMES if p in {f[0] for f in fields}]
    noncanon = [f[0] for f in fields] != canon
    adversarial = any(('"' in f[1] or "=" in f[1] or any(nm in f[1] for nm in NAMES)) for f in opt
                      if M.FIELD_BY_PASCAL[f[0]][2] == "str")
    ctx.note(lines, nontrivial=len(opt) >= 3 and noncanon and adversarial,
             classes=[f"fields_{min(len(opt) // 4 * 4, 20)}+", "adversarial" if adversarial else "plain",
                      "via_chart" if via_chart else "direct"],
             sample={"lines": lines[:8]})


def enum_cases(ctx: Ctx):
    std = {"int": "7", "p2": "rhythm", "str": 'Name = "x"'}
    yield {"fields": [["Resolution", "192", "  ", ""]], "target": None, "new_value": None}
    full = [[p, std[k], "  ", ""] for p, s, k, d in OPTIONAL] + [["Resolution", "192", "  ", ""]]
    yield {"fields": full, "target": "Genre", "new_value": "Artist = y", "via_chart": True}
    yield {"fields": list(reversed(full)), "target": "PreviewEnd", "new_value": "9"}
    for p, s, k, d in OPTIONAL:
        yield {"fields": [["Resolution", "480", "  ", ""], [p, std[k], "  ", " "]], "target": p,
               "new_value": {"int": "0012", "p2": "bass", "str": '"'}[k]}
    yield {"fields": [[p, std[k], "  ", ""] for p, s, k, d in OPTIONAL], "target": None, "new_value": None}
    # lines longer than any plausible line buffer or length guard (2^16 characters and beyond)
    for j, pad in enumerate(G.HUGE_PADS):
        yield {"fields": [["Name", "The Song", pad, ""], ["Resolution", "192", "  ", pad[:66000]],
                          ["Offset", "5", pad, " "], ["Player2", "rhythm", "  ", pad]], "target": "Name",
               "new_value": "x", "via_chart": j == 1}
    yield {"fields": [["Resolution", "192", "  ", ""], ["Charter", "v" * 70000, "  ", ""], ["Album", "a", "  ", ""]],
           "target": "Album", "new_value": "é" * 66000}


# ------------------------------------------------------------------------------------------------
# position in the file: the [Song] section slid, character by character, across multiples of the usual buffer sizes
# ------------------------------------------------------------------------------------------------
_BLOCK_SONG = [["Name", '"A name"'], ["Artist", '"An artist"'], ["Charter", '"c"'], ["Offset", "7"],
               ["Resolution", "480"], ["Player2", "rhythm"], ["Genre", '"metal"'], ["Year", '", 1999"'],
               ["PreviewStart", "30"], ["MusicStream", '"song.ogg"']]


def block_cases(ctx: Ctx):
    sizes = [512, 4096, 8192, 65536] if ctx.quick else [512, 1024, 4096, 8192, 16384, 65536, 131072, 1048576]
    span = sum(len(f"  {n} = {v}\n") for n, v in _BLOCK_SONG) + 12
    for b in sizes:
        for mult in ([1] if ctx.quick or b >= 65536 else [1, 2, 3]):
            step = 1 if b <= 8192 or not ctx.quick else 2
            yield {"block": b * mult, "shifts": [0, span, step], "nl": "\n" if (b // 512) % 2 else "\r\n"}


def check_blocks(ctx: Ctx, case) -> None:
    """A file that starts with an unrecognised filler section of such a size that the [Song] section begins
    ``shift`` characters before character ``block``; for every shift in the range each line end and line start of
    [Song] falls once exactly on the block boundary.  The decoded fields must not depend on where in the file the
    section stands (a reader that works in blocks must not glue or split lines)."""
    nl = case["nl"]
    want = _expected([(n_, v_[1:-1] if v_.startswith('"') else v_) for n_, v_ in _BLOCK_SONG])
    song = "[Song]" + nl + "{" + nl + "".join(f"  {n} = {v}" + nl for n, v in _BLOCK_SONG) + "}" + nl
    tail = "[SyncTrack]" + nl + "{" + nl + "  0 = TS 4" + nl + "  0 = B 120000" + nl + "}" + nl + "[Events]" + nl + "{" + nl + "}" + nl
    lo, hi, step = case["shifts"]
    n = bad = 0
    for shift in range(lo, hi, step):
        target = case["block"] - shift            # length of everything before "[Song]"
        head = "[Filler]" + nl + "{" + nl
        foot = "}" + nl
        room = target - len(head) - len(foot)
        line = "  filler line " + "x" * 40 + nl
        k, rest = divmod(room, len(line))
        if rest and rest < len(nl) + 1:
            k, rest = k - 1, rest + len(line)
        body = line * k + (("y" * (rest - len(nl)) + nl) if rest else "")
        text = head + body + foot + song + tail
        assert len(head + body + foot) == target, (len(head + body + foot), target)
        rc = {"block": case["block"], "shift": shift, "nl": nl}
        ctx.current = dict(case, shifts=[shift, shift + 1, 1])
        try:
            md = L.parse(text).metadata
        except Exception as e:  # noqa: BLE001
            ctx.fail("metadata-parses", f"[Song] section starting {shift} characters before character {case['block']} of "
                                        f"the file: {type(e).__name__}: {e}", ctx.current)
            continue
        got = obs_metadata(md)
        if got != want:
            badf = {f: (got[f], want[f]) for f in want if got[f] != want[f]}
            ctx.fail("field-values", f"[Song] section starting {shift} characters before character {case['block']} of the "
                                     f"file: decoded fields differ (got, expected): {badf}", ctx.current)
        n += 1
    ctx.current = case
    ctx.note_bulk(n, n, classes={f"block_{case['block']}": n}, samples=[{"block": case["block"], "shifts": [lo, hi, step]}])


PARTS: list[Part] = [
    enum_part("enumerated", enum_cases, check_body, {"quick": 1, "thorough": 1}),
    enum_part("blocks", block_cases, check_blocks, {"quick": 4, "thorough": 8}),
    hyp_part("bodies", strat_bodies, check_body, {"quick": 800, "thorough": 25000},
             {"quick": 8, "thorough": 16}),
]
