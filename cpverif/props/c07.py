"""C07 — instrument-section lines are recognised and decoded exactly."""
from __future__ import annotations

import itertools
from hypothesis import strategies as st

from cpverif import conform as C
from cpverif import model as M
from cpverif import strategies as G
from cpverif import trackcheck as T
from cpverif.core import Ctx, Part, custom_part, enum_part, hyp_part
from cpverif.lib import L

RULE = (
    "Differential testing of the three shipped recognisers (N, S, E) against hand-written reference "
    "recognisers of the grammar in the property. part slots (bounded-exhaustive every run): the "
    "canonical line is cut into 9 slots [pad][tick][' = '][K][' '][idx][' '][len][pad]; every slot "
    "ranges over its canonical tokens and 3-5 corruptions (empty, doubled blank, wrong letter, "
    "out-of-range index 8/64/-1, sign, decimal point, extra token): the full product (~7*10^5 "
    "strings) plus an E-specific product is offered to all three recognisers. part positives: "
    "Hypothesis members with tick/length digit strings of 1..1000 digits (leading zeros), every index "
    "0..7, blank/tab padding, E words over printable ASCII and non-ASCII. part mutations: single and "
    "double character edits of members, canonical lines of the other kinds (B/TS/A/quoted events) and "
    "token soup. part sections: well-formed sections written with padded / zero-prefixed numbers and "
    "interleaved non-members, parsed with Chart.from_file: exactly the members' events and one "
    "warning per non-member. Oracle: member => datum with exactly the written integers / the word "
    "verbatim; non-member => RegexNotMatchError. Non-trivial iff a positive has a >= 5-digit number or "
    "padding, or a negative is within one slot / edit of a member; distinct = distinct string."
    ' Whether a non-member line is REPORTED is not judged here (C14). Non-members that differ from a following member in nothing but the index digit are drawn.'
)
ASSUMPTIONS = [
    "alphabet: ASCII digits, blank and tab as padding, printable ASCII and selected non-ASCII letters in "
    "payloads; other Unicode white space / digits (accepted by the shipped \\s, \\d) are not generated",
    "E payloads with an inner tab and the empty word are the unspecified zone: not asserted either way",
    "padding made of Unicode blanks other than space and tab (NBSP, U+3000, ...): acceptance is not asserted "
    "either way; only that the recogniser offered the line alone and the section parser agree about it",
    "a lane index written with leading zeros ('N 07 0') is unspecified (acceptance not asserted either way); "
    "the star-power kind is the literal '2' of the property, so 'S 02 ...' is a line of another shape",
]


from cpverif.spec import HEADER_LIST as S_HEADERS  # noqa: E402
import re as _re
_ZERO_PREFIXED_LANE = _re.compile(r"^[ \t]*[0-9]+ = N 0+[0-7] [0-9]+[ \t]*$")


def _accepts(kind_cls, line):
    try:
        return kind_cls.from_chart_line(line)
    except L.RegexNotMatchError:
        return None


def check_string(ctx: Ctx, line: str, count: bool = True) -> tuple[bool, bool]:
    """Compare shipped N/S/E recognisers with the reference on one string.
    Returns (is_member_of_some_kind, was_asserted)."""
    member = False
    # ---- N
    ref = M.ref_note(line)
    try:
        d = _accepts(L.NoteEvent.ParsedData, line)
    except Exception as e:  # noqa: BLE001
        ctx.fail("note-recogniser-error", f"N recogniser on {line!r} raised {type(e).__name__}: {e}", line)
        d = None
    if ref is None:
        if d is not None and _ZERO_PREFIXED_LANE.match(line):
            # '<0..7>' written with leading zeros ('N 07 0'): the property names the lanes as numbers, so
            # whether such a spelling is a lane line is not asserted either way (the literal 'S 2' is)
            ctx.classes["unspecified_N_zero_prefixed_index"] += 1
        elif d is not None:
            ctx.fail("note-overaccepts", f"{line!r} is not an N line but was decoded as {d!r}", line)
    else:
        member = True
        if d is None:
            ctx.fail("note-rejected", f"N line {line!r} was rejected", line)
        elif (d.tick, d.note_track_index.value, d.sustain) != ref:
            ctx.fail("note-decoded", f"N line {line!r} decoded to "
                                     f"{(d.tick, d.note_track_index.value, d.sustain)}, written {ref}", line)
    # ---- S
    ref = M.ref_star_power(line)
    try:
        d = _accepts(L.StarPowerEvent.ParsedData, line)
    except Exception as e:  # noqa: BLE001
        ctx.fail("sp-recogniser-error", f"S recogniser on {line!r} raised {type(e).__name__}: {e}", line)
        d = None
    if ref is None:
        if d is not None:
            ctx.fail("sp-overaccepts", f"{line!r} is not an 'S 2' line but was decoded as {d!r}", line)
    else:
        member = True
        if d is None:
            ctx.fail("sp-rejected", f"S line {line!r} was rejected", line)
        elif (d.tick, d.sustain) != ref:
            ctx.fail("sp-decoded", f"S line {line!r} decoded to {(d.tick, d.sustain)}, written {ref}",
                     line)
    # ---- E
    ref = M.ref_track_event(line)
    if ref == "UNSPECIFIED" or (ref is not None and ref[1] == ""):
        ctx.classes["unspecified_E"] += 1
    else:
        try:
            d = _accepts(L.TrackEvent.ParsedData, line)
        except Exception as e:  # noqa: BLE001
            ctx.fail("tev-recogniser-error", f"E recogniser on {line!r} raised {type(e).__name__}: {e}",
                     line)
            d = None
        if ref is None:
            if d is not None:
                ctx.fail("tev-overaccepts", f"{line!r} is not an 'E <word>' line but was decoded as "
                                            f"{d!r}", line)
        else:
            member = True
            if d is None:
                ctx.fail("tev-rejected", f"E line {line!r} was rejected", line)
            elif (d.tick, d.value) != ref:
                ctx.fail("tev-decoded", f"E line {line!r} decoded to {(d.tick, d.value)!r}, written "
                                        f"{ref!r}", line)
    return member, True


# ------------------------------------------------------------------------------------------------
N_SLOTS = [
    ["", "  ", "\t", "x"],                                   # left pad
    ["0", "0012", "", "-1", "1.5"],                          # tick
    [" = ", "=", " =", "  = "],                              # separator
    ["N", "S", "E", "n"],                                    # kind letter
    [" ", "", "  "],
    ["0", "2", "4", "5", "6", "7", "8", "64", "-1", "", "02", "002", "07"],     # index
    [" ", "", "  "],
    ["0", "96", "007", "", "-5", "1.0"],                     # length
    ["", " ", "\t", "x"],                                    # right pad
]
E_SLOTS = [
    ["", "  ", "\t", "x"],
    ["0", "0012", "", "-1"],
    [" = ", "=", " =", "  = "],
    ["E", "e", "E ", "N"],
    [" ", "", "\t"],
    ["solo", "a=b", '"q"', "two words", "é漢", "solo ", "N", "2", "0 0", '"two words"', "x\ty"],
    ["", " ", "\t", " x", "  "],
]


def check_slots(ctx: Ctx, case) -> None:
    """case: {"table": "N"|"E", "first": [indices of the first two slots]} -> the sub-product with
    the first two slots fixed; or {"line": str} for a single string (replay of a failure)."""
    if "line" in case:
        check_string(ctx, case["line"])
        ctx.note(case["line"], nontrivial=True)
        return
    slots = N_SLOTS if case["table"] == "N" else E_SLOTS
    i0, i1 = case["first"]
    head = slots[0][i0] + slots[1][i1]
    canon = [s[0] for s in slots]
    n = members = near = 0
    for combo in itertools.product(*slots[2:]):
        line = head + "".join(combo)
        ctx.current = {"line": line}
        member, _ = check_string(ctx, line)
        n += 1
        members += member
        ndiff = (slots[0][i0] != canon[0]) + (slots[1][i1] != canon[1]) + \
            sum(1 for a, b in zip(combo, canon[2:]) if a != b)
        if not member and ndiff <= 2:
            near += 1
    ctx.current = case
    ctx.note_bulk(n, members + near, classes={f"{case['table']}_strings": n,
                                              f"{case['table']}_members": members,
                                              f"{case['table']}_near_misses": near},
                  samples=[{"table": case["table"], "example": head + "".join(s[0] for s in slots[2:]),
                            "near_miss": head + "".join(s[-1] if k == 3 else s[0]
                                                        for k, s in enumerate(slots[2:]))}])


def drive_slots(ctx: Ctx) -> None:
    cases = []
    for table, slots in (("N", N_SLOTS), ("E", E_SLOTS)):
        for i0 in range(len(slots[0])):
            for i1 in range(len(slots[1])):
                cases.append({"table": table, "first": [i0, i1]})
    for i, case in enumerate(cases):
        if i % ctx.nshards != ctx.shard:
            continue
        check_slots(ctx, case)
    ctx.exhaustive["slots"] = True


# ------------------------------------------------------------------------------------------------
_pad = st.sampled_from(["", "", " ", "  ", "\t", " \t "])


def _digit_strings(max_len):
    return st.one_of(
        st.integers(0, 10 ** 6).map(str),
        st.builds(lambda z, n: "0" * z + str(n), st.integers(1, 5), st.integers(0, 10 ** 9)),
        st.integers(1, max_len).flatmap(lambda k: st.text(alphabet="0123456789", min_size=k, max_size=k)),
    )


word_chars = st.characters(min_codepoint=33, max_codepoint=0x24F,
                           blacklist_characters=G.LINE_BREAKS + " \t\xa0\x1f",
                           blacklist_categories=("Cc", "Cs", "Zs", "Zl", "Zp"))
_words = st.one_of(st.sampled_from([w for w in G.WRAPPED if " " not in w and "\t" not in w]),
                   # every one-character word (some are markers in other tools' dialects: * T O H ...)
                   st.sampled_from([chr(c) for c in range(33, 127)]),
                   st.sampled_from(G.KNOWN_TRACK_WORDS),
                   st.sampled_from(["solo", "soloend", "a=b", '"q"', '"solo"', '"phrase_start"', '"lyric"', "N", "S",
                                    "2", "0=N", "[x]", "{", "}"]),
                   st.text(alphabet=word_chars, min_size=1, max_size=20),
                   st.lists(st.sampled_from(G.UNICODE_ODDITIES + ["a", "Q", '"']), min_size=1, max_size=3).map("".join),
                   st.lists(st.sampled_from([m for m in G.MARKUP_ODDITIES if " " not in m] + ["a"]), min_size=1,
                            max_size=3).map("".join))


def _positive(max_len):
    d = _digit_strings(max_len)
    return st.one_of(
        st.builds(lambda lp, t, i, n, rp: {"kind": "N", "line": f"{lp}{t} = N {i} {n}{rp}",
                                           "want": [int(t), i, int(n)]},
                  _pad, d, st.integers(0, 7), d, _pad),
        st.builds(lambda lp, t, n, rp: {"kind": "S", "line": f"{lp}{t} = S 2 {n}{rp}",
                                        "want": [int(t), int(n)]}, _pad, d, d, _pad),
        st.builds(lambda lp, t, w, rp: {"kind": "E", "line": f"{lp}{t} = E {w}{rp}",
                                        "want": [int(t), w]}, _pad, d, _words, _pad),
    )


def strat_positives(ctx: Ctx):
    return _positive(ctx.pick(300, 1000))


def check_positive(ctx: Ctx, case) -> None:
    line, kind, want = case["line"], case["kind"], case["want"]
    cls = {"N": L.NoteEvent.ParsedData, "S": L.StarPowerEvent.ParsedData,
           "E": L.TrackEvent.ParsedData}[kind]
    try:
        d = cls.from_chart_line(line)
    except Exception as e:  # noqa: BLE001
        ctx.fail(f"{kind}-rejected", f"canonical {kind} line {line[:120]!r} rejected: "
                                     f"{type(e).__name__}: {str(e)[:200]}", case)
        return
    got = [d.tick, d.note_track_index.value, d.sustain] if kind == "N" else \
        [d.tick, d.sustain] if kind == "S" else [d.tick, d.value]
    if got != want:
        ctx.fail(f"{kind}-decoded", f"{line[:120]!r} decoded to {str(got)[:200]}, written "
                                    f"{str(want)[:200]}", case)
    # the generator-side expectation and the reference recogniser must agree with each other too
    check_string(ctx, line)
    big = len(line) - len(line.strip(" \t")) > 0 or any(len(str(x)) >= 5 for x in want)
    ctx.note(line, nontrivial=big, classes=[f"positive_{kind}", "long" if len(line) > 60 else "short"],
             sample={"line": line[:200], "kind": kind})


# ------------------------------------------------------------------------------------------------
def _edit(draw, s: str) -> str:
    if not s:
        return draw(st.sampled_from(["x", " ", "0"]))
    i = draw(st.integers(0, len(s) - 1))
    op = draw(st.integers(0, 3))
    ch = draw(st.sampled_from(list(' \t=NSEBTA"012789x-.+')))
    if op == 0:
        return s[:i] + s[i + 1:]
    if op == 1:
        return s[:i] + ch + s[i:]
    if op == 2:
        return s[:i] + ch + s[i + 1:]
    j = draw(st.integers(0, len(s) - 1))
    lst = list(s)
    lst[i], lst[j] = lst[j], lst[i]
    return "".join(lst)


@st.composite
def _mutated(draw):
    base = draw(st.one_of(
        _positive(12).map(lambda c: c["line"]),
        st.builds(lambda t, n: f"{t} = B {n}", st.integers(0, 999), st.integers(1, 999999)),
        st.builds(lambda t, n: f"{t} = TS {n}", st.integers(0, 999), st.integers(1, 16)),
        st.builds(lambda t, n, l: f"{t} = TS {n} {l}", st.integers(0, 999), st.integers(1, 16),
                  st.integers(0, 6)),
        st.builds(lambda t, n: f"{t} = A {n}", st.integers(0, 999), st.integers(1, 999999)),
        st.builds(lambda t, w: f'{t} = E "{w}"', st.integers(0, 999),
                  st.sampled_from(["section a", "lyric b", "c", "two words", ""])),
        st.builds(lambda t, i, n: f"{t} = S {i} {n}", st.integers(0, 999),
                  st.sampled_from([0, 1, 2, 3, 64, 22, 20, 12]), st.integers(0, 999)),
        st.builds(lambda t, i, n: f"{t} = N {i} {n}", st.integers(0, 999),
                  st.sampled_from([8, 9, 10, 17, 70]), st.integers(0, 999)),
        st.lists(st.sampled_from(["0", "5", "=", "N", "S", "E", "2", "7", " ", "\t", "x", '"', ""]),
                 max_size=9).map(" ".join),
    ))
    for _ in range(draw(st.integers(0, 2))):
        base = _edit(draw, base)
    return base


def strat_mutations(ctx: Ctx):
    return _mutated()


def check_mutation(ctx: Ctx, line) -> None:
    member, _ = check_string(ctx, line)
    ctx.note(line, nontrivial=True, classes=["member" if member else "non_member"],
             sample={"line": line, "member": member})


# ------------------------------------------------------------------------------------------------
@st.composite
def _sections(draw, ctx):
    n = draw(st.integers(1, ctx.pick(12, 40)))
    tick = draw(st.one_of(st.integers(0, 50), st.integers(0, 50), st.integers(0, 50), st.sampled_from(G.BIG_OFFSETS_32)))
    lines = []   # [text, kind, payload]
    for g in range(n):
        if g:
            tick += draw(st.integers(1, 300))
        what = draw(st.sampled_from(["N", "N", "N", "S", "E", "X"]))
        lp, rp = draw(_pad), draw(_pad)
        tz = "0" * draw(st.sampled_from([0, 0, 0, 1, 3]))
        if what == "N":
            mask = draw(st.one_of(st.integers(1, 31), st.sampled_from([1, 2, 4, 8, 16]), st.just(0)))
            ln = draw(st.sampled_from([0, 0, 7, 1000]))
            lz = "0" * draw(st.sampled_from([0, 0, 2]))
            idxs = [7] if mask == 0 else [i for i in range(5) if mask >> i & 1]
            if draw(st.integers(0, 4)) == 0:
                idxs.append(6)
            if draw(st.integers(0, 5)) == 0:
                # likewise for note lines: index 8 / 9 in the very same layout
                lines.append([f"{lp}{tz}{tick} = N {draw(st.sampled_from('89'))} {lz}{ln}{rp}", "X", None])
            for i in idxs:
                lines.append([f"{lp}{tz}{tick} = N {i} {lz}{ln}{rp}", "N", [tick, i, ln]])
        elif what == "S":
            ln = draw(st.integers(0, 500))
            if draw(st.integers(0, 3)) == 0:
                # a line of another shape that differs from the phrase line in nothing but its index digit (same
                # padding, same tick, same length), right before it or a few lines earlier
                k = draw(st.sampled_from("013456789"))
                lines.insert(draw(st.sampled_from([len(lines), len(lines), max(0, len(lines) - 3), 0])),
                             [f"{lp}{tz}{tick} = S {k} {ln}{rp}", "X", None])
            lines.append([f"{lp}{tz}{tick} = S 2 {ln}{rp}", "S", [tick, ln]])
            if draw(st.integers(0, 5)) == 0:      # an identical line again: two phrases, not one
                lines.append(list(lines[-1]))
        elif what == "E":
            w = draw(_words)
            lines.append([f"{lp}{tz}{tick} = E {w}{rp}", "E", [tick, w]])
            for _ in range(draw(st.sampled_from([0, 0, 0, 0, 1, 2]))):   # repeated verbatim
                lines.append(list(lines[-1]))
        if what in ("N", "S") and draw(st.integers(0, 3)) == 0:
            # another kind of line on the very same tick (N lines, then S, then E: Moonscraper's order)
            if what == "N" and draw(st.booleans()):
                ln = draw(st.integers(0, 500))
                lines.append([f"{lp}{tick} = S 2 {ln}{rp}", "S", [tick, ln]])
            w = draw(_words)
            lines.append([f"{lp}{tick} = E {w}{rp}", "E", [tick, w]])
        if what not in ("N", "S", "E"):
            bad = draw(st.sampled_from([
                f"{tick} = S 64 10", f"{tick} = N 8 0", f"{tick} = E two words", f"{tick} = S 0 5",
                f"{tick} = N 0", f"{tick} = S 2", f"{tick} = N 0 0 0", f"{tick}= N 0 0",
                f"{tick} = B 120000", f'{tick} = E "section x y"', "", "garbage", f"{tick} = H 0 0",
                f"{tick} = S 22 5", f"{tick} = N 10 0", f"{tick} = S 2 5 5"]))
            lines.append([bad, "X", None])
            if draw(st.integers(0, 5)) == 0:      # the same non-member twice in a row: two warnings
                lines.append([bad, "X", None])
    # a line is decoded for what it says, wherever it stands: in a quarter of the sections the S lines
    # (and, separately, the E lines) change places among themselves, so they are no longer in tick order
    for kind in ("S", "E"):
        slots = [k for k, x in enumerate(lines) if x[1] == kind]
        if len(slots) >= 2 and draw(st.integers(0, 3)) == 0:
            perm = draw(st.permutations(slots))
            moved = [lines[k] for k in perm]
            for k, x in zip(slots, moved):
                lines[k] = x
    from cpverif import spec as S_
    return {"lines": lines, "header": draw(st.sampled_from(S_.HEADER_LIST))}


def strat_sections(ctx: Ctx):
    return _sections(ctx)


def check_section(ctx: Ctx, case) -> None:
    lines = case["lines"]
    rc = {"lines": [x[0] for x in lines]}
    # certify the generator's labels with the reference recognisers (harness self-check)
    for text, kind, payload in lines:
        refs = {"N": M.ref_note(text), "S": M.ref_star_power(text), "E": M.ref_track_event(text)}
        owner = [k for k, v in refs.items() if v is not None]
        if (kind == "X" and owner) or (kind != "X" and owner != [kind]):
            raise AssertionError(f"generator label {kind} disagrees with reference {owner} for {text!r}")
    # the very same strings may also live in [Events] (a quoted one-word E line is a global text event
    # there and a track event here): what a line means depends on its section, not on its text
    twins = [x[0] for x in lines if x[1] == "E" and M.ref_quoted_event(x[0]) is not None
             and M.classify_global(M.ref_quoted_event(x[0])[1])[0] is not None]
    ev_sorted = sorted(twins, key=lambda l: M.ref_quoted_event(l)[0])
    text = T.chart_text(192, [[0, 120000]], {})
    if twins and len(lines) % 4 != 3:
        text = text.replace("[Events]\n{\n", "[Events]\n{\n" + "".join(t + "\n" for t in ev_sorted), 1)
    body = "".join(x[0] + "\n" for x in lines)
    header = case.get("header", "ExpertSingle")
    text += f"[{header}]\n{{\n" + body + "}\n"
    with C.capture_logs(debug=len(body) % 4 == 1) as recs:
        try:
            chart = L.parse(text)
        except Exception as e:  # noqa: BLE001
            ctx.fail("section-parses", f"section rejected: {type(e).__name__}: {e}", rc)
            return
    tr = T.get_track(chart, header)
    want_sp = [x[2] for x in lines if x[1] == "S"]
    want_te = [x[2] for x in lines if x[1] == "E"]
    got_sp = [[e.tick, e.sustain] for e in tr.star_power_events]
    got_te = [[e.tick, e.value] for e in tr.track_events]
    if got_sp != want_sp:
        ctx.fail("section-phrases", f"star power events {got_sp} != members {want_sp}", rc)
    if got_te != want_te:
        ctx.fail("section-track-events", f"track events {got_te} != members {want_te}", rc)
    groups: dict[int, set] = {}
    for x in lines:
        if x[1] == "N":
            groups.setdefault(x[2][0], set()).add(x[2][1])
    want_notes = [[t, [1 if i in groups[t] else 0 for i in range(5)]] for t in sorted(groups)]
    got_notes = [[e.tick, list(e.note.value)] for e in tr.note_events]
    if got_notes != want_notes:
        ctx.fail("section-notes", f"note events {got_notes[:8]} != members {want_notes[:8]}", rc)
    bad = [x[0] for x in lines if x[1] == "X"]
    why = C.reports_match(C.records_of(recs, "chartparse.track"), bad)
    if why:
        # Whether a line that yields nothing is REPORTED is C14's statement, not C07's ("never produce an event
        # of these kinds"): counted here, judged there.  (C07 used to fail on it: over-reach, see DESIGN 9.)
        ctx.classes["nonmember_reporting_differs_not_judged_here"] += 1
    nx = len(bad)
    ctx.note(rc["lines"], nontrivial=nx >= 1 and len(lines) - nx >= 2,
             classes=[f"nonmembers_{min(nx, 4)}"], sample={"lines": rc["lines"][:12]})


def long_cases(ctx: Ctx):
    """Lines longer than any plausible line buffer or length guard (2^16 characters and beyond): padding of
    70 000 blanks / tabs on either side, an 80 000-character word, a 70 000-digit... no: 4 000-digit tick."""
    for pad in G.HUGE_PADS:
        for lp, rp in ((pad, ""), ("", pad), (pad, pad[:66000])):
            yield {"line": f"{lp}96 = N 3 48{rp}", "kind": "N", "want": [96, 3, 48]}
            yield {"line": f"{lp}96 = S 2 48{rp}", "kind": "S", "want": [96, 48]}
            yield {"line": f"{lp}96 = E solo{rp}", "kind": "E", "want": [96, "solo"]}
    yield {"line": "7 = E " + "w" * 80000, "kind": "E", "want": [7, "w" * 80000]}
    yield {"line": "  7 = E " + "é" * 66000 + " ", "kind": "E", "want": [7, "é" * 66000]}
    big = "9" * 4000
    yield {"line": f"  {big} = N 0 {big}", "kind": "N", "want": [int(big), 0, int(big)]}


# Unicode blanks that str.splitlines() does not treat as line ends.  Whether padding made of them is "blank
# padding" in the sense of the property is not asserted (see ASSUMPTIONS); what IS checked is that the two
# observation points agree: a line the shipped recogniser decodes when it is offered alone is decoded to the
# same datum when it stands in an instrument section, and a line it refuses yields nothing there.
UNI_BLANKS = ["\u00a0", "\u3000", "\u2003", "\u2009", "\u200a", "\u202f", "\u205f", "\u1680", "\x1f", "\u2000"]


def uniblank_cases(ctx: Ctx):
    k = 0
    for b in UNI_BLANKS:
        for lp, rp in ((b, ""), ("", b), (b + " ", "\t" + b), ("  " + b, ""), (b * 3, b)):
            for body, kind in (("777 = N 3 48", "N"), ("777 = S 2 48", "S"), ("777 = E solo", "E")):
                k += 1
                yield {"line": lp + body + rp, "kind": kind, "header": S_HEADERS[k % 40]}


def check_uniblank(ctx: Ctx, case) -> None:
    line, kind = case["line"], case["kind"]
    cls = {"N": L.NoteEvent.ParsedData, "S": L.StarPowerEvent.ParsedData, "E": L.TrackEvent.ParsedData}[kind]
    try:
        cls.from_chart_line(line)
        alone = True
    except L.RegexNotMatchError:
        alone = False
    except Exception as e:  # noqa: BLE001
        ctx.fail("recogniser-error", f"{kind} recogniser on {line!r} raised {type(e).__name__}: {e}", case)
        return
    text = T.chart_text(192, [[0, 120000]], {})
    text += f"[{case['header']}]\n{{\n  0 = N 0 0\n  96 = N 1 0\n{line}\n  960 = N 2 0\n}}\n"
    try:
        chart = L.parse(text)
    except Exception as e:  # noqa: BLE001
        ctx.fail("section-parses", f"section with {line!r} rejected: {type(e).__name__}: {e}", case)
        return
    tr = T.get_track(chart, case["header"])
    there = {"N": any(e.tick == 777 for e in tr.note_events),
             "S": any(e.tick == 777 and e.sustain == 48 for e in tr.star_power_events),
             "E": any(e.tick == 777 and e.value == "solo" for e in tr.track_events)}[kind]
    if there != alone:
        ctx.fail("recogniser-and-section-disagree",
                 f"{line!r}: the {kind} recogniser {'decodes' if alone else 'refuses'} it when offered alone, but in an "
                 f"instrument section it {'yields' if there else 'yields no'} event", case)
    ctx.note(line, nontrivial=True, classes=[f"uniblank_{'accepted' if alone else 'refused'}"],
             sample={"line": line, "accepted": alone})


PARTS: list[Part] = [
    enum_part("long", long_cases, check_positive, {"quick": 2, "thorough": 2}),
    enum_part("uniblank", uniblank_cases, check_uniblank, {"quick": 2, "thorough": 2}),
    custom_part("slots", drive_slots, check_slots, {"quick": 12, "thorough": 16}),
    hyp_part("positives", strat_positives, check_positive, {"quick": 1500, "thorough": 25000},
             {"quick": 2, "thorough": 16}),
    hyp_part("mutations", strat_mutations, check_mutation, {"quick": 2000, "thorough": 35000},
             {"quick": 4, "thorough": 16}),
    hyp_part("sections", strat_sections, check_section, {"quick": 300, "thorough": 3000},
             {"quick": 4, "thorough": 16}),
]
