"""C09 — global events are classified lyric / section / text with verbatim values."""
from __future__ import annotations

from hypothesis import strategies as st

from cpverif import conform as C
from cpverif import model as M
from cpverif import strategies as G
from cpverif.core import Ctx, Part, enum_part, hyp_part
from cpverif.lib import L

RULE = (
    "Hypothesis event texts assembled from fragments {'lyric', 'lyric ', 'section', 'section ', '\"', "
    "blanks, tab, '=', '[', ']', '{', '}', ASCII words, non-ASCII words, ''} in random order (keywords as "
    "prefix, infix, suffix, with and without the blank, doubled) written as '<tick> = E \"<text>\"' with "
    "blank/tab padding and zero-prefixed ticks; sections of 1..30 lines (thorough ..120) mixing the "
    "kinds, in sorted tick order over multi-tempo maps, arbitrary order over a single tempo, or (a quarter "
    "of the multi-tempo cases) with a few transposed ticks, where ValueError is an accepted outcome but a "
    "returned chart must still list the events in file order. part "
    "lines checks each generated line at datum level against all three recognisers in the documented "
    "order. Oracle: reference classifier (prefix 'lyric ' -> lyric + remainder; prefix 'section ' -> "
    "section + remainder; else no inner quote -> text + whole text; otherwise the property is silent "
    "and only 'at most one list' is asserted); each list equals the (tick, value) subsequence of its "
    "kind in file order; total = number of classified lines. Non-trivial iff >= 2 kinds occur and some "
    "text has a keyword in non-prefix position or an inner quote; distinct = distinct section text."
    ' Also: long near-twins (two consecutive events on one tick whose texts share their first 61..300 characters).'
)
ASSUMPTIONS = [
    "texts never contain a line-boundary character; Unicode white space other than blank/tab is not "
    "used as padding",
]

FRAGS = G.UNICODE_ODDITIES + G.MARKUP_ODDITIES + ["lyric", "lyric ", "section", "section ", '"', " ", "  ", "\t", "=", "[", "]", "{", "}", "a",
         "Solo 1", "phrase_start", "é", "漢字", "ß", "", "E", "0 = E", "-", "lyric\t", "Section ",
         "LYRIC ", "x\"y", '" ']
_joined = st.lists(st.sampled_from(FRAGS), min_size=0, max_size=5).map("".join)
_noquote = st.lists(st.sampled_from([f for f in FRAGS if '"' not in f]), min_size=0, max_size=5).map("".join)
_LONG_TEXTS = ["a" * 70000, "lyric " + "la " * 25000, "section " + "x" * 66000]
texts = st.one_of(
    _joined,
    _noquote,
    st.builds(lambda p, r: p + r, st.sampled_from(["lyric ", "section "]), _joined),
    st.builds(lambda p, r: p + r, st.sampled_from(["lyric ", "section "]), _noquote),
    G.plain_text,
    st.sampled_from(G.WRAPPED), st.sampled_from(["lyric ", "section ", ""]).flatmap(
        lambda pre: st.sampled_from(G.WRAPPED).map(lambda w: pre + w)),
    st.sampled_from(G.KNOWN_GLOBAL_EVENTS),
    # names with a meaning to the games (candidates for special treatment)
    st.sampled_from(["end", "end", "music_start", "music_end", "phrase_start", "phrase_end", "coda", "idle", "play",
                     "crowd_lighters_fast", "section end", "lyric end", "End", "the end", "solo", "soloend",
                     "Default", "section Intro", "lyric +"]),
    # a remainder that itself contains what opens an event of the OTHER (or the same) kind: the quote
    # followed by a keyword, a whole nested event, the line's own delimiters
    st.builds(lambda pre, a, q, kw, b, c: pre + a + q + kw + b + c,
              st.sampled_from(["lyric ", "section "]), st.sampled_from(["", "the ", "a = E ", "7 = E ", "x "]),
              st.sampled_from(['"', '"', ' "', '= E "', '0 = E "']),
              st.sampled_from(["lyric ", "section ", "lyric", "section", "lyric  ", "section\t"]),
              st.sampled_from(["", "video", "Solo 1", "x y", "é"]), st.sampled_from(["", '"', '" part', ' "', '""'])),
    st.sampled_from(["lyric ", "section ", "lyric", "section", "", " ", '"', '""', "lyric \"", 'a" ',
                     'lyric a" ', "section lyric x", "lyric section x", " lyric x"]),
)
_pad = st.sampled_from(["", "", "  ", " ", "\t", "  \t"])


@st.composite
def _sections(draw, ctx):
    multi = draw(st.booleans())
    n = draw(st.integers(1, ctx.pick(30, 120)))
    tlist = draw(st.lists(texts, min_size=n, max_size=n))
    silent = any(M.classify_global(t)[0] is None for t in tlist)
    if multi:
        tmap = draw(G.tempo_maps(max_segments=5, min_segments=2))
        gaps = draw(st.lists(st.integers(0 if not silent else 1, 400), min_size=n, max_size=n))
        ticks, t = [], 0
        for g in gaps:
            t += g
            ticks.append(t)
        if draw(st.integers(0, 3)) == 0 and n >= 2:
            # arbitrary line order over a multi-tempo map: the lookup hints may object with ValueError
            # (C11); if a chart is returned the lists must still be in FILE order
            for _ in range(draw(st.integers(1, 3))):
                i, j = draw(st.integers(0, n - 1)), draw(st.integers(0, n - 1))
                ticks[i], ticks[j] = ticks[j], ticks[i]
    else:
        tmap = {"res": draw(st.sampled_from([192, 480, 7])), "tempo": [[0, draw(st.integers(1, 10 ** 6))]]}
        if silent:
            ticks = draw(st.lists(st.integers(0, 10 ** 6), min_size=n, max_size=n, unique=True))
        else:
            ticks = draw(st.lists(st.integers(0, 10 ** 6), min_size=n, max_size=n))
            if draw(st.booleans()):
                ticks = sorted(ticks)
    lines = []
    for tk, tx in zip(ticks, tlist):
        lines.append({"lp": draw(_pad), "z": draw(st.sampled_from([0, 0, 0, 2])), "tick": tk, "text": tx,
                      "rp": draw(_pad)})
    # twins: the same event again (same tick, same text), and near-twins that differ by letter case, a
    # trailing blank or surrounding blanks only -- every line is an event of its own, carried verbatim
    if not silent and draw(st.integers(0, 2)) == 0:
        out = []
        for ln in lines:
            out.append(ln)
            if '"' not in ln["text"] and draw(st.integers(0, 4)) == 0:
                how = draw(st.integers(0, 6))
                tx = ln["text"]
                if how >= 5:
                    # LONG near-twins on one tick: the same 64 / 100 / 300 characters, then one differing character
                    # (or one differing character in the middle): each line carries its own text
                    width = draw(st.sampled_from([61, 64, 65, 100, 300]))
                    base = (tx + " " + "la di da " * 40)[:max(width, len(tx) + 1)]
                    if how == 5:
                        out[-1] = dict(ln, text=base + "1")
                        tx2 = base + "2"
                    else:
                        mid = len(tx) + (len(base) - len(tx)) // 2
                        out[-1] = dict(ln, text=base[:mid] + "x" + base[mid:])
                        tx2 = base[:mid] + "y" + base[mid:]
                else:
                    tx2 = [tx, tx.swapcase(), tx + " ", tx.strip(), tx.title()][how]
                out.append(dict(ln, text=tx2, lp=draw(_pad)))
        lines = out
        ticks = [ln["tick"] for ln in lines]
        n = len(lines)
    # size amplification: one section in eight is LONG (130..1000 lines): the drawn block is repeated
    # with shifted ticks, so that anything that behaves differently after N lines is reached
    if draw(st.integers(0, 7)) == 0:
        reps = draw(st.sampled_from([5, 10, 33, 129])) if n >= 8 else draw(st.sampled_from([33, 129, 257]))
        reps = min(reps, max(1, 1000 // n))
        span = max(ticks) + 1
        block = list(lines)
        for k in range(1, reps):
            for ln in block:
                lines.append(dict(ln, tick=ln["tick"] + k * span))
    return {"res": tmap["res"], "tempo": tmap["tempo"], "lines": lines}


def strat_sections(ctx: Ctx):
    return _sections(ctx)


def _render_line(ln) -> str:
    return f'{ln["lp"]}{"0" * ln["z"]}{ln["tick"]} = E "{ln["text"]}"{ln["rp"]}'


def check_section(ctx: Ctx, case) -> None:
    lines = case["lines"]
    body = [_render_line(ln) for ln in lines]
    text = "[Song]\n{\n  Resolution = %d\n}\n[SyncTrack]\n{\n  0 = TS 4\n%s}\n[Events]\n{\n%s}\n" % (
        case["res"], "".join(f"  {t} = B {n}\n" for t, n in case["tempo"]),
        "".join(b + "\n" for b in body))
    if len(body) % 3 == 0:
        # an instrument section with its own E lines (track events) next to the global events
        decoy = "[ExpertSingle]\n{\n  0 = N 0 0\n  0 = E solo\n  0 = E lyric\n  0 = E section\n}\n"
        text = text + decoy if len(body) % 2 else text.replace("[Events]\n{", decoy + "[Events]\n{", 1)
    rc = {"res": case["res"], "tempo": case["tempo"], "events_body": body}
    tk = [ln["tick"] for ln in lines]
    unsorted_multi = len(case["tempo"]) > 1 and tk != sorted(tk)
    with C.capture_logs() as recs:
        try:
            chart = L.parse(text)
        except ValueError as e:
            if not unsorted_multi:
                ctx.fail("section-parses", f"events section rejected: ValueError: {e}", rc)
            # ticks running backwards across a tempo change may be refused (C11), never reordered
            ctx.note(body, nontrivial=False, classes=["unsorted_multi_tempo_ValueError"])
            return
        except Exception as e:  # noqa: BLE001
            ctx.fail("section-parses", f"events section rejected: {type(e).__name__}: {e}", rc)
            return
    if unsorted_multi:
        ctx.classes["unsorted_multi_tempo_parsed"] += 1
    g = chart.global_events_track
    got = {"lyric": [[e.tick, e.value] for e in g.lyric_events],
           "section": [[e.tick, e.value] for e in g.section_events],
           "text": [[e.tick, e.value] for e in g.text_events]}
    want = {"lyric": [], "section": [], "text": []}
    silent = []
    kinds = set()
    tricky = False
    for ln in lines:
        kind, val = M.classify_global(ln["text"])
        if kind is None:
            silent.append(ln)
        else:
            want[kind].append([ln["tick"], val])
            kinds.add(kind)
        tx = ln["text"]
        if '"' in tx or any(k in tx[1:] for k in ("lyric", "section")):
            tricky = True
    if not silent:
        for k in ("lyric", "section", "text"):
            if got[k] != want[k]:
                i = next((j for j, (a, b) in enumerate(zip(got[k], want[k])) if a != b),
                         min(len(got[k]), len(want[k])))
                ctx.fail(f"{k}-list", f"{k}_events differ from the classified lines at position {i}: "
                                      f"got {got[k][i:i + 2]!r}, expected {want[k][i:i + 2]!r} "
                                      f"(lengths {len(got[k])}/{len(want[k])})", rc)
                return
        if recs:
            ctx.fail("classified-not-reported", f"classified lines were reported unparsable: "
                                                f"{C.unparsable_texts(recs)[:3]}", rc)
    else:
        # ticks are unique in this mode: account per tick
        by_tick = {}
        for k in got:
            for tick, val in got[k]:
                by_tick.setdefault(tick, []).append([k, val])
        for ln in lines:
            kind, val = M.classify_global(ln["text"])
            landed = by_tick.get(ln["tick"], [])
            if kind is None:
                if len(landed) > 1:
                    ctx.fail("at-most-one-list", f"text {ln['text']!r} landed in {landed}", rc)
            elif landed != [[kind, val]]:
                ctx.fail(f"{kind}-list", f"text {ln['text']!r} at tick {ln['tick']} should be one {kind} "
                                         f"event with value {val!r}; landed as {landed!r}", rc)
        for k in got:
            order = [t for t, _ in got[k]]
            file_order = [ln["tick"] for ln in lines if ln["tick"] in set(order)]
            if order != file_order:
                ctx.fail("file-order", f"{k}_events are not in file order", rc)
    total = sum(len(v) for v in got.values())
    if total > len(lines):
        ctx.fail("at-most-one-list", f"{len(lines)} lines produced {total} events", rc)
    ctx.note(body, nontrivial=len(kinds) >= 2 and tricky,
             classes=[f"kinds_{len(kinds)}", "has_silent" if silent else "all_classified",
                      "multi_tempo" if len(case["tempo"]) > 1 else "single_tempo"],
             sample={"events_body": body[:8]})


# ------------------------------------------------------------------------------------------------
def strat_lines(ctx: Ctx):
    return st.builds(lambda lp, z, t, tx, rp: {"lp": lp, "z": z, "tick": t, "text": tx, "rp": rp},
                     _pad, st.sampled_from([0, 0, 3]),
                     st.one_of(st.integers(0, 10 ** 7), st.integers(0, 10 ** 30)), texts, _pad)


def check_line(ctx: Ctx, ln) -> None:
    line = _render_line(ln)
    kind, val = M.classify_global(ln["text"])
    order = [("lyric", L.LyricEvent.ParsedData), ("section", L.SectionEvent.ParsedData),
             ("text", L.TextEvent.ParsedData)]
    first = None
    for name, cls in order:
        try:
            d = cls.from_chart_line(line)
        except L.RegexNotMatchError:
            continue
        except Exception as e:  # noqa: BLE001
            ctx.fail("recogniser-error", f"{name} recogniser on {line!r}: {type(e).__name__}: {e}", ln)
            continue
        first = (name, d)
        break
    if kind is None:
        ctx.note(line, nontrivial=False, classes=["silent"])
        return
    if first is None:
        ctx.fail("line-rejected", f"{line!r} should be a {kind} event but no kind accepts it", ln)
        return
    name, d = first
    if name != kind or d.value != val or d.tick != ln["tick"]:
        ctx.fail("line-classified", f"{line!r}: classified {name} with (tick {d.tick}, value "
                                    f"{d.value!r}); expected {kind} with (tick {ln['tick']}, value {val!r})",
                 ln)
    tx = ln["text"]
    ctx.note(line, nontrivial='"' in tx or tx != tx.strip() or any(k in tx[1:] for k in ("lyric", "section")),
             classes=[f"kind_{kind}"], sample={"line": line, "kind": kind, "value": val})


def long_cases(ctx: Ctx):
    """Lines longer than any plausible line buffer or length guard (2^16 characters and beyond)."""
    for pad in G.HUGE_PADS:
        for lp, rp in ((pad, ""), ("", pad), (pad, pad[:66000])):
            for tx in ("section Intro", "lyric la", "phrase_start"):
                yield {"lp": lp, "z": 0, "tick": 96, "text": tx, "rp": rp}
    for tx in _LONG_TEXTS:
        yield {"lp": "  ", "z": 0, "tick": 96, "text": tx, "rp": ""}
        yield {"lp": "\t", "z": 2, "tick": 10 ** 30, "text": tx, "rp": " "}


PARTS: list[Part] = [
    enum_part("long", long_cases, check_line, {"quick": 2, "thorough": 2}),
    hyp_part("sections", strat_sections, check_section, {"quick": 500, "thorough": 4000},
             {"quick": 6, "thorough": 16}),
    hyp_part("lines", strat_lines, check_line, {"quick": 2500, "thorough": 40000},
             {"quick": 2, "thorough": 16}),
]
