"""C14 — unrecognised lines are skipped locally; each line is claimed at most once."""
from __future__ import annotations

import itertools
from collections import Counter

from hypothesis import strategies as st

from cpverif import conform as C
from cpverif import model as M
from cpverif import spec as S
from cpverif import strategies as G
from cpverif.core import Ctx, Part, hyp_part
from cpverif.lib import L
from cpverif.observe import diff_paths, observation

RULE = (
    "part sections: Hypothesis well-formed charts (sync, events and one or two instrument sections); "
    "garbage lines certified unparsable for their section by the harness' own reference recognisers "
    "(lines of foreign sections, unsupported indices 'S 64'/'N 8', H-lines, metadata lines, empty and "
    "blank lines, token soup) are inserted at drawn positions (first, last, between the N lines of one "
    "tick, runs, with multiplicities), then moved to other positions. Oracle: observation with garbage "
    "== observation without; exactly one 'unparsable line' record per garbage line (multiset equality "
    "of the reported texts) and none for parsable lines. part datum: the public "
    "parse_data_from_chart_lines(kinds, lines) on mixed lists: sum of list lengths + #warnings == "
    "#lines, and all 6 orders of the sync / instrument kind tuples give identical lists. part "
    "disjoint: grammar-derived lines of every kind, their single-edit near-misses and token soup: at "
    "most one sync kind and at most one instrument kind accepts any string. Non-trivial iff garbage "
    "was inserted inside a tick group or as a run >= 2 or moved across a parsable line (sections); "
    ">= 2 kinds and >= 1 garbage line present (datum); the string is accepted by some kind or is a "
    "near-miss (disjoint); distinct = distinct case."
)
ASSUMPTIONS = [
    "[Song] is out of scope (no event kinds, nothing is reported there)",
    "garbage is made of ASCII printable characters, tab, a few non-ASCII letters and control / format "
    "characters that are neither white space nor line boundaries (NUL, BEL, BS, SUB = Ctrl-Z, ESC, DEL, BOM, "
    "ZWSP); Unicode white space / digits, which the shipped \\s and \\d would accept, and the characters "
    "str.splitlines() treats as line ends are not generated",
    "events-section kinds overlap by design (first match wins), so disjointness is asserted only for "
    "the sync and instrument kinds",
]

TOKENS = ["0", "5", "17", "=", "N", "S", "E", "B", "TS", "A", "H", "2", "64", "8", "-1", "x", '"', "solo",
          "lyric", "section", " ", "\t", "", "1.5", "0=", "= N", "Name", "é", "漢"]
soup = st.lists(st.sampled_from(TOKENS), min_size=0, max_size=8).map(" ".join)

FIXED_GARBAGE = [
    "", " ", "   ", "\t", "garbage", "0 = S 64 10", "  0 = S 64 10", "0 = N 8 0", "0 = N 9 0", "0 = S 0 5",
    "0 = S 1 5", "0 = H 1 2", '  Name = "x"', "  Resolution = 192", "0 = N 0", "0 = N 0 0 0", "0 = B",
    "0 = TS", "0 = A", "0 =  N 0 0", "0 = N  0 0", "0= N 0 0", "x = N 0 0", "-1 = N 0 0", "0 = n 0 0",
    "0 = B 120000", "  0 = TS 4", "0 = TS 4 2", "0 = A 100", "  0 = N 0 0", "0 = S 2 10", "0 = E solo",
    '0 = E "section a"', '0 = E "lyric b"', '  0 = E "t"', '0 = E "unterminated', "0 = E two words",
    "[Song]", "{x", "}x", "0 = B 1.5", "0 = B -5", "0 = TS 4 2 1", "0 = A 1 2", "0 = N 0 0x",
    # what other formats call a comment (here: one more unparsable line, reported like any other)
    "// merged from part2.chart", "  // 96 = N 3 0", "//", "# comment", "  # 0 = N 0 0", "; comment", "-- x", "/* x */",
    "<!-- x -->", "REM x", "' x", "% x", "//0 = B 120000", "#", ";",
]


# characters with a meaning to terminals, DOS-era tools or decoders; inside a chart line they are just garbage
CONTROL_GARBAGE = ["\x1a", "garbage \x1a more", ";; merged \x1a ;;", "\x00", "x\x00y", "\x07", "\x08\x08", "\x1b[0m",
                   "\x7f", "\ufeff", "\ufeff[Song]", "\u200b", "0 = N 0 0\x1a", "\x1a0 = N 0 0", "}\x1a", "\x1a}",
                   "\x1a\x1a\x1a", "0 = B 120000\x00", '0 = E "x\x1a', "\x04", "\x03"]


def _garbage_for(section_kind: str, line: str) -> bool:
    """True iff the harness' reference recognisers certify ``line`` as unparsable in that section."""
    if section_kind == "sync":
        return not M.is_sync_line(line)
    if section_kind == "events":
        return M.ref_quoted_event(line) is None
    return M.ref_note(line) is None and M.ref_star_power(line) is None and \
        M.ref_track_event(line) is None     # 'UNSPECIFIED' (inner tab) is not None -> not used


def _kind_of(section: str) -> str:
    return "sync" if section == "SyncTrack" else "events" if section == "Events" else "instrument"


# unsupported indices of every size (Moonscraper writes drum pad modifiers N 32..68, S 64 fills, ...)
index_garbage = st.one_of(
    st.builds(lambda t, k, n: f"  {t} = N {k} {n}", st.integers(0, 5000), st.integers(8, 99), st.integers(0, 99)),
    st.builds(lambda t, k, n: f"  {t} = S {k} {n}", st.integers(0, 5000),
              st.integers(0, 99).filter(lambda k: k != 2), st.integers(0, 99)))
garbage_line = st.one_of(st.sampled_from(FIXED_GARBAGE), st.sampled_from(FIXED_GARBAGE), soup, index_garbage,
                         st.sampled_from(CONTROL_GARBAGE))


@st.composite
def _cases(draw, ctx):
    c = draw(G.chart_specs(max_segments=3, max_tracks=2, min_tracks=1, max_notes=ctx.pick(8, 20),
                           max_events=4, max_ts=2, max_anchors=1, min_notes=2, with_layout=False))
    spec = c["spec"]
    # well-formed lines written TWICE in a row (same tick, same everything): each copy is a body line of its
    # own and contributes its own datum
    if draw(st.integers(0, 2)) == 0:
        spec = dict(spec)
        kind = draw(st.sampled_from(["events", "S", "E", "TS"]))
        if kind == "events" and spec["events"]:
            k = draw(st.integers(0, len(spec["events"]) - 1))
            spec["events"] = spec["events"][:k + 1] + [list(spec["events"][k])] + spec["events"][k + 1:]
        elif kind == "TS":
            idx = [i for i, it in enumerate(spec["sync"]) if it[1] == "TS"]
            k = draw(st.sampled_from(idx))
            spec["sync"] = spec["sync"][:k + 1] + [list(spec["sync"][k])] + spec["sync"][k + 1:]
        else:
            tracks = {}
            for h, items in spec["tracks"].items():
                idx = [i for i, it in enumerate(items) if it[1] == kind]
                if idx:
                    k = draw(st.sampled_from(idx))
                    items = items[:k + 1] + [list(items[k])] + items[k + 1:]
                tracks[h] = items
            spec["tracks"] = tracks
    secs = [(n, b) for n, b in S.sections_of(spec) if n != "Song"]
    ins = {}
    moved = {}
    for name, body in secs:
        if draw(st.integers(0, 3)) == 0:
            continue
        kind = _kind_of(name)
        k = draw(st.integers(1, 5))
        glines = []
        for _ in range(k):
            g = draw(garbage_line.filter(lambda s, kind=kind: _garbage_for(kind, s)))
            mult = draw(st.sampled_from([1, 1, 1, 2, 3]))
            if draw(st.integers(0, 15)) == 0:
                mult = draw(st.sampled_from([102, 130, 257, 520]))   # LONG runs (size thresholds)
            glines.append([g, mult])
        pos_st = st.one_of(st.just(0), st.just(len(body)), st.integers(0, len(body)))
        ins[name] = [[draw(pos_st), g, mult] for g, mult in glines]
        moved[name] = [[draw(pos_st), g, mult] for g, mult in glines]
    return {"spec": spec, "ins": ins, "moved": moved}


def strat_cases(ctx: Ctx):
    return _cases(ctx)


def _insert(body: list[str], insertions) -> tuple[list[str], dict]:
    """Insert raw garbage lines; body lines are rendered with the standard indent."""
    out = ["  " + b for b in body]
    info = {"inside_group": False, "run": False}
    for pos, g, mult in sorted(insertions, key=lambda x: -x[0]):
        pos = min(pos, len(body))
        if 0 < pos < len(body):
            a, b = body[pos - 1], body[pos]
            if " = N " in a and " = N " in b and a.split(" ", 1)[0] == b.split(" ", 1)[0]:
                info["inside_group"] = True
        if mult >= 2:
            info["run"] = True
        out[pos:pos] = [g] * mult
    return out, info


def _render(spec, ins) -> tuple[str, dict, list[str]]:
    lines = []
    info_all = {"inside_group": False, "run": False}
    garbage = []
    for name, body in S.sections_of(spec):
        if name in ins:
            blines, info = _insert(body, ins[name])
            for k in info_all:
                info_all[k] = info_all[k] or info[k]
            for _, g, mult in ins[name]:
                garbage += [g] * mult
        else:
            blines = ["  " + b for b in body]
        lines += [f"[{name}]", "{"] + blines + ["}"]
    return "\n".join(lines) + "\n", info_all, garbage


def check_case(ctx: Ctx, case) -> None:
    spec = case["spec"]
    base_text = S.render(spec)
    with C.capture_logs() as recs0:
        try:
            base = L.parse(base_text)
        except Exception as e:  # noqa: BLE001
            ctx.fail("chart-parses", f"well-formed chart rejected: {type(e).__name__}: {e}",
                     {"text": base_text})
            return
    if recs0:
        ctx.fail("parsable-not-reported", f"well-formed chart logged {[r.getMessage() for r in recs0][:3]}",
                 {"text": base_text})
    base_obs = observation(base)
    # conservation without any garbage: one datum per body line (counted per kind with the harness' own
    # recognisers; note lines are grouped by the parser, so they are counted through their ticks)
    st_, g_ = base.sync_track, base.global_events_track
    want_counts = {"ts": sum(1 for it in spec["sync"] if it[1] == "TS"),
                   "bpm": sum(1 for it in spec["sync"] if it[1] == "B"),
                   "anchors": sum(1 for it in spec["sync"] if it[1] == "A"),
                   "global": len(spec["events"])}
    got_counts = {"ts": len(st_.time_signature_events), "bpm": len(st_.bpm_events),
                  "anchors": len(st_.anchor_events),
                  "global": len(g_.text_events) + len(g_.section_events) + len(g_.lyric_events)}
    for h, items in spec["tracks"].items():
        try:
            tr = base.instrument_tracks[L.Instrument[S.HEADERS[h][0]]][L.Difficulty[S.HEADERS[h][1]]]
        except KeyError:
            ctx.fail("one-datum-per-line", f"track {h} missing", {"text": base_text})
            continue
        want_counts[h] = [sum(1 for it in items if it[1] == "S"), sum(1 for it in items if it[1] == "E")]
        got_counts[h] = [len(tr.star_power_events), len(tr.track_events)]
    if got_counts != want_counts:
        bad = {k: (got_counts.get(k), want_counts[k]) for k in want_counts if got_counts.get(k) != want_counts[k]}
        ctx.fail("one-datum-per-line", f"body lines and events do not match one to one (got, lines): {bad}",
                 {"text": base_text})
    nontrivial = False
    for label in ("ins", "moved"):
        text, info, garbage = _render(spec, case[label])
        rc = {"text": text, "base_text": base_text, "garbage": garbage}
        with C.capture_logs() as recs:
            try:
                ch = L.parse(text)
            except Exception as e:  # noqa: BLE001
                ctx.fail("garbage-skipped", f"chart with unparsable lines rejected: "
                                            f"{type(e).__name__}: {e}", rc)
                return
        o = observation(ch)
        if o != base_obs or not (ch == base):
            ctx.fail("garbage-changes-events", f"unparsable lines changed the parsed chart: "
                                               f"{diff_paths(base_obs, o)}", rc)
            return
        why = C.reports_match(C.records_of(recs, "chartparse.track"), garbage)
        if why:
            ctx.fail("reported-once", f"unparsable lines are not reported exactly once each: {why}; "
                                      f"records: {[r.getMessage()[:80] for r in recs][:4]}", rc)
        extra = [r.getMessage() for r in recs if r.name != "chartparse.track"]
        if extra:
            ctx.fail("reported-once", f"unexpected log records {extra[:3]}", rc)
        nontrivial = nontrivial or info["inside_group"] or info["run"] or \
            (label == "moved" and case["ins"] != case["moved"] and bool(garbage))
        for k, v in info.items():
            if v:
                ctx.classes[k] += 1
    for name in case["ins"]:
        ctx.classes[f"garbage_in_{_kind_of(name)}"] += 1
    ctx.note([base_text, case["ins"], case["moved"]], nontrivial=nontrivial,
             sample={"ins": case["ins"], "moved": case["moved"], "text_head": base_text[:200]})


# ------------------------------------------------------------------------------------------------
def _kinds(group: str):
    if group == "sync":
        return [L.BPMEvent.ParsedData, L.TimeSignatureEvent.ParsedData, L.AnchorEvent.ParsedData]
    if group == "instrument":
        return [L.NoteEvent.ParsedData, L.StarPowerEvent.ParsedData, L.TrackEvent.ParsedData]
    return [L.LyricEvent.ParsedData, L.SectionEvent.ParsedData, L.TextEvent.ParsedData]


_num = st.one_of(st.integers(0, 9), st.integers(0, 10 ** 6), st.just(0)).map(str)
_pad = st.sampled_from(["", "", "  ", " ", "\t"])
good_sync = st.one_of(
    st.builds(lambda p, t, n: f"{p}{t} = B {n}", _pad, _num, _num),
    st.builds(lambda p, t, u: f"{p}{t} = TS {u}", _pad, _num, _num),
    st.builds(lambda p, t, u, l: f"{p}{t} = TS {u} {l}", _pad, _num, _num, st.integers(0, 9).map(str)),
    st.builds(lambda p, t, n: f"{p}{t} = A {n}", _pad, _num, _num),
    # padded on the right as well: whether a kind tolerates trailing blanks is the recognisers'
    # business; the section parser must agree with them line by line (checked in part datum)
    st.builds(lambda p, t, n, q: f"{p}{t} = A {n}{q}", _pad, _num, _num, _pad),
    st.builds(lambda p, t, n, q: f"{p}{t} = B {n}{q}", _pad, _num, _num, _pad),
    st.builds(lambda p, t, u, q: f"{p}{t} = TS {u}{q}", _pad, _num, _num, _pad))
good_instr = st.one_of(
    st.builds(lambda p, t, i, n, q: f"{p}{t} = N {i} {n}{q}", _pad, _num, st.integers(0, 7), _num, _pad),
    st.builds(lambda p, t, n, q: f"{p}{t} = S 2 {n}{q}", _pad, _num, _num, _pad),
    st.builds(lambda p, t, w, q: f"{p}{t} = E {w}{q}", _pad, _num,
              st.sampled_from(["solo", "soloend", "x", "a=b", '"q"', "N", "2"]), _pad))
good_events = st.one_of(
    st.builds(lambda p, t, w: f'{p}{t} = E "{w}"', _pad, _num,
              st.sampled_from(["a", "section x", "lyric y", "section ", "lyric", "two words"])))


def _edit(draw, s: str) -> str:
    if not s:
        return draw(st.sampled_from(["x", " "]))
    i = draw(st.integers(0, len(s) - 1))
    op = draw(st.integers(0, 2))
    ch = draw(st.sampled_from(list(' \t=NSEBTA"0129x-.')))
    if op == 0:
        return s[:i] + s[i + 1:]
    if op == 1:
        return s[:i] + ch + s[i:]
    return s[:i] + ch + s[i + 1:]


@st.composite
def _near(draw, base):
    s = draw(base)
    for _ in range(draw(st.integers(1, 2))):
        s = _edit(draw, s)
    return s


any_line = st.one_of(good_sync, good_instr, good_events, _near(good_sync), _near(good_instr),
                     _near(good_events), soup, st.sampled_from(FIXED_GARBAGE))


def _with_repeats(lines, picks):
    # adjacent verbatim repeats (parsable and unparsable alike): every copy counts
    out = []
    for i, ln in enumerate(lines):
        out.append(ln)
        if picks and picks[i % len(picks)] == 0:
            out.append(ln)
    return out


def strat_datum(ctx: Ctx):
    return st.builds(lambda g, lines, picks: {"group": g, "lines": _with_repeats(lines, picks)},
                     st.sampled_from(["sync", "instrument", "events"]),
                     st.lists(any_line, min_size=1, max_size=ctx.pick(12, 40)),
                     st.lists(st.integers(0, 4), max_size=6))


def _as_plain(lst):
    return [repr(x) for x in lst]


def check_datum(ctx: Ctx, case) -> None:
    kinds = _kinds(case["group"])
    lines = case["lines"]
    fn = L.track.parse_data_from_chart_lines
    with C.capture_logs() as recs:
        try:
            m = fn(tuple(kinds), lines)
        except Exception as e:  # noqa: BLE001
            ctx.fail("datum-parse", f"parse_data_from_chart_lines raised {type(e).__name__}: {e}", case)
            return
    lists = {k.__qualname__: _as_plain(m[k]) for k in kinds}
    claimed = sum(len(v) for v in lists.values())
    warned = C.records_of(recs, "chartparse.track")
    if claimed + len(warned) != len(lines):
        ctx.fail("conservation", f"{len(lines)} lines, {claimed} data + {len(warned)} warnings "
                                 f"(each line must be claimed once or reported once)", case)
    # the reported lines are exactly the lines no kind accepts
    unclaimed = []
    for ln in lines:
        acc = 0
        for k in kinds:
            try:
                k.from_chart_line(ln)
                acc += 1
            except L.RegexNotMatchError:
                pass
        if acc == 0:
            unclaimed.append(ln)
    why = C.reports_match(warned, unclaimed)
    if why:
        ctx.fail("reported-once", f"lines no kind accepts {unclaimed}: {why}", case)
    if case["group"] != "events":
        for perm in itertools.permutations(kinds):
            with C.capture_logs():
                m2 = fn(tuple(perm), lines)
            lists2 = {k.__qualname__: _as_plain(m2[k]) for k in kinds}
            if lists2 != lists:
                ctx.fail("kind-order-independent",
                         f"kinds tried in order {[k.__qualname__ for k in perm]} give different lists: "
                         f"{diff_paths(lists, lists2)}", case)
    nkinds = sum(1 for v in lists.values() if v)
    ctx.note(case, nontrivial=nkinds >= 2 and len(warned) >= 1,
             classes=[f"group_{case['group']}", f"kinds_{nkinds}"],
             sample={"group": case["group"], "lines": lines[:10], "claimed": claimed,
                     "warned": len(warned)})


def strat_disjoint(ctx: Ctx):
    return any_line


def check_disjoint(ctx: Ctx, line) -> None:
    accepted = {}
    for group in ("sync", "instrument"):
        acc = []
        for k in _kinds(group):
            try:
                k.from_chart_line(line)
                acc.append(k.__qualname__)
            except L.RegexNotMatchError:
                pass
            except Exception as e:  # noqa: BLE001
                ctx.fail("recogniser-error", f"{k.__qualname__}.from_chart_line({line!r}) raised "
                                             f"{type(e).__name__}: {e}", line)
        if len(acc) > 1:
            ctx.fail("kinds-disjoint", f"{line!r} is claimed by {acc}", line)
        accepted[group] = acc
    # agreement with the reference recognisers on which kind (if any) owns the string
    ref_sync = [n for n, f in (("BPMEvent.ParsedData", M.ref_bpm),
                               ("TimeSignatureEvent.ParsedData", M.ref_time_signature),
                               ("AnchorEvent.ParsedData", M.ref_anchor)) if f(line) is not None]
    ref_instr = [n for n, f in (("NoteEvent.ParsedData", M.ref_note),
                                ("StarPowerEvent.ParsedData", M.ref_star_power),
                                ("TrackEvent.ParsedData", M.ref_track_event)) if f(line) is not None]
    unspecified = M.ref_track_event(line) == "UNSPECIFIED"
    if accepted["sync"] != ref_sync:
        ctx.fail("kind-ownership", f"{line!r}: sync kinds accepting {accepted['sync']}, reference "
                                   f"grammar says {ref_sync}", line)
    if not unspecified and accepted["instrument"] != ref_instr:
        ctx.fail("kind-ownership", f"{line!r}: instrument kinds accepting {accepted['instrument']}, "
                                   f"reference grammar says {ref_instr}", line)
    owner = (accepted["sync"] + accepted["instrument"])
    ctx.note(line, nontrivial=bool(owner) or " = " in line, classes=["owned" if owner else "unowned"]
             + (["owned_by_both_sections"] if accepted["sync"] and accepted["instrument"] else []),
             sample={"line": line, "owners": owner})


PARTS: list[Part] = [
    hyp_part("sections", strat_cases, check_case, {"quick": 300, "thorough": 3000},
             {"quick": 8, "thorough": 16}),
    hyp_part("datum", strat_datum, check_datum, {"quick": 500, "thorough": 10000},
             {"quick": 2, "thorough": 16}),
    hyp_part("disjoint", strat_disjoint, check_disjoint, {"quick": 5000, "thorough": 100000},
             {"quick": 4, "thorough": 16}),
]
