"""C02 — one note event per tick; lanes are exactly the lanes written."""
from __future__ import annotations

from hypothesis import strategies as st

from cpverif import spec as S
from cpverif import strategies as G
from cpverif import trackcheck as T
from cpverif.core import Ctx, Part, enum_part, hyp_part
from cpverif.model import FORCED, OPEN, TAP, expected_notes

RULE = (
    "part table (exhaustive every run): all 31 lane subsets + open x position {first, middle, last group} "
    "x neighbour gap {1, 7} x flags {none, tap, forced (never on the first note), both}. part sections: "
    "Hypothesis sections of 1..30 ticks (thorough ..200) with gaps from {1, 2, small, large}, any lane "
    "subset or open per tick, lane lines ascending or in a drawn order, flag lines after or between the "
    "lane lines, and star-power / track-event lines inserted at arbitrary positions including between "
    "the N lines of one tick and before/after all notes. Oracle: the sorted distinct ticks carrying N "
    "lines; one event per such tick, strictly increasing, note.value == the 5-bit tuple of written "
    "lanes (open -> all zero). part bigfile: a 200 000-character section parsed at 24 (48) character-by-character "
    "shifts of its position in the file (block boundaries of any size up to 128 KiB fall on and inside lines). "
    "Non-trivial iff >= 3 ticks and (chord of >= 3 lanes, or gap 1, or a "
    "chord as last group, or an S/E line inside a tick group); distinct = distinct section text."
    ' Also: a lane line repeated verbatim inside its tick group; sections parsed with a selection (all sections / target plus an absent pair).'
)
ASSUMPTIONS = [
    "one line per (tick, lane); N lines sorted by tick (Moonscraper); a lone open line is first in its tick "
    "group. 'Open chords' (an N 7 line on a tick that also has lane lines, as newer editors write them) are "
    "generated in the random part only and judged by the statement's own rule -- the active lanes are exactly "
    "the lanes the tick's lines name; their sustain is documented as undefined and is not looked at (C03 "
    "never generates them)",
    "a forced flag is never put on the first note (documented ValueError)",
]

HEADER = "ExpertSingle"
TEMPO = [[0, 120000]]


def _lines(items):
    return [S.track_line(it) for it in items]


def check_section(ctx: Ctx, case) -> None:
    items = case["items"]
    res = case.get("res", 192)
    exp = expected_notes(res, items)
    rc = {"res": res, "lines": _lines(items), "fmt": case.get("fmt", 0), "header": case.get("header", HEADER),
          "tempo": case.get("tempo", TEMPO)}
    chart, tr = T.parse_track(ctx, res, case.get("tempo", TEMPO), _lines(items), case.get("header", HEADER), rc,
                              fmt=case.get("fmt", 0))
    if tr is None:
        return
    T.compare_notes(ctx, tr, exp, rc, {"ticks", "lanes"})
    ticks = [x["tick"] for x in exp]
    got = [e.tick for e in tr.note_events]
    if any(b <= a for a, b in zip(got, got[1:])):
        ctx.fail("strictly-increasing", f"note event ticks not strictly increasing: {got[:20]}", rc)
    # classification
    chord3 = any(sum(x["value"]) >= 3 for x in exp)
    gap1 = any(b - a == 1 for a, b in zip(ticks, ticks[1:]))
    chord_last = bool(exp) and sum(exp[-1]["value"]) >= 2
    inside = False
    seen_n_at = None
    for i, it in enumerate(items):
        if it[1] == "N":
            seen_n_at = it[0]
        elif seen_n_at is not None and i + 1 < len(items) and items[i + 1][1] == "N" \
                and items[i + 1][0] == seen_n_at:
            inside = True
    for x in exp:
        ctx.classes["mask_%d" % sum(b << i for i, b in enumerate(x["value"]))
                    if not x["open"] else "mask_open"] += 1
    ctx.note([rc["lines"], rc["fmt"]], nontrivial=len(exp) >= 3 and (chord3 or gap1 or chord_last or inside),
             classes=[c for c, f in (("chord3", chord3), ("gap1", gap1), ("chord_last", chord_last),
                                     ("se_inside_group", inside)) if f],
             sample={"lines": rc["lines"][:24], "expected": [[x["tick"], list(x["value"])] for x in exp[:8]]})


def _group(tick, mask, tap, forced):
    items = []
    if mask == 0:
        items.append([tick, "N", OPEN, 0])
    else:
        items += [[tick, "N", i, 0] for i in range(5) if mask >> i & 1]
    if forced:
        items.append([tick, "N", FORCED, 0])
    if tap:
        items.append([tick, "N", TAP, 0])
    return items


def table_cases(ctx: Ctx):
    for mask in range(0, 32):
        for pos in (0, 1, 2):
            for gap in (1, 7):
                for tap, forced in ((0, 0), (1, 0), (0, 1), (1, 1)):
                    if forced and pos == 0:
                        continue
                    base = 1000
                    ticks = [base, base + gap, base + 2 * gap]
                    neigh = [3, 4]  # G+R chord, Y single: both differ from most targets
                    groups = []
                    k = 0
                    for p in range(3):
                        if p == pos:
                            groups += _group(ticks[p], mask, tap, forced)
                        else:
                            groups += _group(ticks[p], neigh[k], 0, 0)
                            k += 1
                    # a third of the table is written with blank/tab padding around the lines
                    k = mask * 97 + pos * 13 + gap + tap * 2 + forced
                    yield {"items": groups, "fmt": k + 1 if k % 3 == 0 else 0,
                           "header": S.HEADER_LIST[k % 40]}


# ------------------------------------------------------------------------------------------------
@st.composite
def _sections(draw, max_ticks):
    n = draw(st.integers(1, max_ticks))
    start = draw(st.one_of(st.integers(0, 5), st.integers(0, 10 ** 7)))
    res = draw(st.sampled_from([192, 192, 480, 96, 4]))
    tick = start
    nlines = []      # N lines
    group_ticks = []
    for g in range(n):
        if g > 0:
            tick += draw(st.one_of(st.just(1), st.just(2), st.integers(1, 200), st.integers(1, 10 ** 5)))
        mask = draw(st.one_of(st.integers(0, 31), st.integers(0, 31), st.sampled_from([1, 2, 4, 8, 16])))
        lanes = [i for i in range(5) if mask >> i & 1]
        if len(lanes) > 1 and draw(st.booleans()):
            lanes = draw(st.permutations(lanes))
        # lengths vary too (they must not influence grouping or lanes)
        ln_st = st.sampled_from([0, 0, 0, 1, 5, 1000])
        glines = [[tick, "N", OPEN, draw(ln_st)]] if mask == 0 else [[tick, "N", i, draw(ln_st)] for i in lanes]
        if mask != 0 and draw(st.integers(0, 9)) == 0:
            # an "open chord": the open-note line next to lane lines (anywhere among them)
            glines.insert(draw(st.integers(0, len(glines))), [tick, "N", OPEN, draw(ln_st)])
        if mask != 0 and draw(st.integers(0, 7)) == 0:
            # a lane line written twice, verbatim: the tick still names the same lanes
            lane_lines = [g for g in glines if g[2] <= 4]
            for _ in range(draw(st.sampled_from([1, 1, 2]))):
                glines.insert(draw(st.integers(0, len(glines))), list(draw(st.sampled_from(lane_lines))))
        fl = draw(st.integers(0, 11))
        flags = []
        if fl in (8, 10) and g > 0:
            flags.append([tick, "N", FORCED, draw(st.sampled_from([0, 0, 7]))])
        if fl in (9, 10, 11):
            flags.append([tick, "N", TAP, draw(st.sampled_from([0, 0, 7]))])
        if flags and mask != 0 and draw(st.integers(0, 3)) == 0:
            # flag lines between / before lane lines
            for f in flags:
                pos = draw(st.integers(0, len(glines)))
                glines.insert(pos, f)
        else:
            glines += flags
        nlines += glines
        group_ticks.append(tick)
    # S / E insertions at arbitrary positions, ticks non-decreasing in file order
    n_ins = draw(st.integers(0, 6))
    positions = sorted(draw(st.lists(st.integers(0, len(nlines)), min_size=n_ins, max_size=n_ins)))
    items = []
    pi = 0
    for i in range(len(nlines) + 1):
        while pi < len(positions) and positions[pi] == i:
            t = nlines[i - 1][0] if i > 0 else draw(st.integers(0, nlines[0][0]))
            if draw(st.booleans()):
                items.append([t, "S", 2, draw(st.integers(0, 300))])
            else:
                items.append([t, "E", draw(st.sampled_from(["solo", "soloend", "x"]))])
            pi += 1
        if i < len(nlines):
            items.append(nlines[i])
    # leading S/E lines drawn with arbitrary tick <= first note tick must stay sorted among themselves
    lead = [it for it in items[:items.index(nlines[0])]]
    lead_sorted = sorted(lead, key=lambda it: it[0])
    items[:len(lead)] = lead_sorted
    # LONG sections: the drawn block repeated with shifted ticks (size thresholds, chunked processing)
    if draw(st.integers(0, 9)) == 0:
        span = max(it[0] for it in items) + draw(st.sampled_from([1, 1, 50]))
        reps = draw(st.sampled_from([30, 129, 300])) if n <= 8 else draw(st.sampled_from([10, 40]))
        block = list(items)
        for k in range(1, reps):
            items += [[it[0] + k * span] + list(it[1:]) for it in block]
    # any of the 40 sections; sometimes a tempo so fast that neighbouring ticks share a timestamp
    # (grouping is by tick, not by time), sometimes a tempo change in the middle
    tempo = [[0, draw(st.sampled_from([120000, 120000, 10 ** 9, 1000]))]]
    if draw(st.integers(0, 3)) == 0:
        tempo.append([draw(st.integers(1, max(1, tick))), draw(st.sampled_from([60000, 10 ** 9, 200001]))])
    if draw(st.integers(0, 5)) == 0:
        res = 10 ** 6
    lifted = G.lift_items(draw, items, res)
    if lifted:
        items, tempo, res = lifted
    return {"res": res, "items": items, "tempo": tempo, "header": draw(st.sampled_from(S.HEADER_LIST)),
            "fmt": draw(st.one_of(st.just(0), st.just(0), st.integers(1, 10 ** 6)))}


def strat_sections(ctx: Ctx):
    return _sections(ctx.pick(30, 200))


def bigfile_cases(ctx: Ctx):
    """Sections of ~9000 lines (~200 000 characters) whose position in the file is shifted character by
    character (a [Song] Name of growing length): whatever block size the text might be read or framed in (up to
    128 KiB), some shift puts a block boundary exactly on a line end, some inside a line, some inside a number."""
    for shift in range(ctx.pick(24, 48)):
        yield {"big": True, "shift": shift}


def check_bigfile(ctx: Ctx, case) -> None:
    shift = case["shift"]
    items = []
    # thorough tier: every third shift uses a section of ~1.4 million characters (block sizes up to 1 MiB)
    n_groups = 42000 if (ctx.tier == "thorough" and shift % 3 == 0) else 6000
    for j in range(n_groups):
        t = 1000 + j * 7
        items.append([t, "N", j % 5, 0])
        if j % 2 == 0:
            items.append([t, "N", (j + 2) % 5, 0])
        if j % 5 == 0:
            items.append([t, "N", 6, 0])
    exp = expected_notes(192, items)
    lines = _lines(items)
    text = T.chart_text(192, TEMPO, {HEADER: lines})
    text = text.replace("  Resolution = 192\n", '  Name = "' + "x" * shift + '"\n  Resolution = 192\n', 1)
    rc = {"big": True, "shift": shift, "chars": len(text)}
    from cpverif.lib import L as _L
    try:
        chart = _L.parse(text)
    except Exception as e:  # noqa: BLE001
        ctx.fail("chart-parses", f"well-formed big chart rejected: {type(e).__name__}: {str(e)[:200]}", rc)
        return
    tr = T.get_track(chart, HEADER)
    T.compare_notes(ctx, tr, exp, rc, {"ticks", "lanes"})
    ctx.note(["big", shift], nontrivial=True, classes=["bigfile"],
             sample={"shift": shift, "chars": len(text), "lines": len(lines)})


PARTS: list[Part] = [
    enum_part("bigfile", bigfile_cases, check_bigfile, {"quick": 8, "thorough": 16}),
    enum_part("table", table_cases, check_section, {"quick": 2, "thorough": 4}),
    hyp_part("sections", strat_sections, check_section, {"quick": 500, "thorough": 2500},
             {"quick": 6, "thorough": 16}),
]
