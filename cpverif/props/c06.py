"""C06 — sections are framed and routed to the right parser and track key."""
from __future__ import annotations

import io
import os
import tempfile

from hypothesis import strategies as st

from cpverif import conform as C
from cpverif import core
from cpverif import spec as S
from cpverif import strategies as G
from cpverif.core import Ctx, Part, enum_part, hyp_part
from cpverif.lib import L
from cpverif.observe import diff_paths, observation

RULE = (
    "Hypothesis chart specs with a random subset of the 40 '<Difficulty><Instrument>' headers (part "
    "headers enumerates each single header and all 40 together every run); every section's first and "
    "last body line is a distinctive marker event so that an off-by-one in framing loses or leaks a "
    "line; every track carries content derived from its key. Per case the relations are evaluated: "
    "(a) conformance of the parsed chart with the model of the spec (metadata, tempo/TS/anchor lists, "
    "classified global events, per-key notes/phrases/track events, track labels, exact key set) and no "
    "'unparsable line' warning; (b) a Hypothesis-drawn permutation of section order gives an equal, "
    "observably identical chart; (c) CRLF == LF through from_file(StringIO) and from_filepath; (d) "
    "BOM == no BOM through from_filepath; (e) 0..3 unknown sections with arbitrary names/bodies "
    "inserted anywhere leave the chart equal and produce exactly one 'unhandled data section' record "
    "each; (f) removing any required section raises ValueError. Non-trivial iff >= 2 instrument tracks "
    "with a non-identity section order, or an unknown section is present (CRLF/BOM variants are run "
    "for every case); distinct = distinct (spec, order, unknown sections)."
    " Added relations: one junk line in front of / between the real lines of every recognised section leaves the chart unchanged; instrument sections with an empty body still yield their (empty) track under their key; a missing required section is still missing when an unrecognised section's name contains the required name."
)
ASSUMPTIONS = [
    "BOM only through from_filepath (the property says 'when read by path'); no duplicate headers; no "
    "blank lines between sections; unknown bodies never contain a line equal to '}'",
]

KNOWN = set(S.HEADER_LIST) | set(S.REQUIRED)


def _work_dir() -> str:
    return core.work_dir()


def add_markers(spec: dict, max_tick: int) -> dict:
    spec = dict(spec)
    extras = [x for x in (spec.get("song") or []) if x[0] not in ("Name", "Charter", "Resolution")]
    spec["song"] = [["Name", '"first marker"']] + extras[:len(extras) // 2] + [["Resolution", str(spec["res"])]] \
        + extras[len(extras) // 2:] + [["Charter", '"last marker"']]
    spec["sync"] = list(spec["sync"]) + [[max_tick, "A", 123456789]]
    spec["events"] = [[0, "first_marker"]] + list(spec["events"]) + [[max_tick, "section last_marker"]]
    tracks = {}
    for h, items in spec["tracks"].items():
        tracks[h] = [[0, "E", f"first_{h}"]] + list(items) + [[max_tick, "E", f"last_{h}"]]
    spec["tracks"] = tracks
    return spec


name_chars = st.characters(min_codepoint=32, max_codepoint=0x2FF,
                           blacklist_characters=G.LINE_BREAKS + "\x1f", blacklist_categories=("Cc", "Cs"))
unknown_names = st.one_of(
    st.sampled_from(["Foo", "ExpertDrumsReal", "expertsingle", "Song2", "PART GUITAR", "a]b", "[x",
                     "ExpertSingle ", " Events", "SyncTrack]"]),
    st.text(alphabet=name_chars, min_size=1, max_size=12),
).filter(lambda n: n not in KNOWN)
body_lines = st.one_of(
    st.sampled_from(["{", " }", "}}", "[Song]", "  0 = N 0 0", "  0 = B 1", "  Resolution = 1",
                     "", "  ", "[ExpertSingle]", "  0 = E \"x\"", "garbage", "\x1a", "garbage \x1a more", "\x00",
                     "} // x", "  }", "}\x1a", "// }", "# }", "{ }",
                     # structural-looking lines behind a character that is neither a blank nor a line end
                     "\ufeff}", "\ufeff{", "\ufeff[Song]", "\ufeff[ExpertSingle]", "\ufeff  0 = N 0 0", "\u200b}",
                     "\x00}", "}\ufeff", "\ufeff"]),
    st.text(alphabet=name_chars, max_size=20),
).filter(lambda s: s != "}")


@st.composite
def _cases(draw, ctx):
    c = draw(G.chart_specs(max_segments=4, max_tracks=ctx.pick(5, 10), max_notes=6, max_events=4,
                           max_ts=2, max_anchors=1, with_layout=False))
    spec = add_markers(c["spec"], c["max_tick"])
    # sections with line-for-line IDENTICAL bodies (another difficulty of the same instrument, another
    # instrument): routing is by header, never by content
    if spec["tracks"] and draw(st.integers(0, 2)) == 0:
        src = draw(st.sampled_from(sorted(spec["tracks"])))
        inst = S.HEADERS[src][0]
        same_inst = [h for h in S.HEADER_LIST if S.HEADERS[h][0] == inst and h not in spec["tracks"]]
        other = [h for h in S.HEADER_LIST if h not in spec["tracks"]]
        for pool in (same_inst, other):
            if pool and draw(st.booleans()):
                dst = draw(st.sampled_from(pool))
                if dst not in spec["tracks"]:
                    spec["tracks"][dst] = list(spec["tracks"][src])
    # instrument sections with an EMPTY body ('[HardSingle]', '{', '}'): the header is there, so the track is
    # there (without events), under its own key
    if draw(st.integers(0, 3)) == 0:
        free = [h for h in S.HEADER_LIST if h not in spec["tracks"]]
        for h in draw(st.lists(st.sampled_from(free), min_size=1, max_size=3, unique=True)):
            spec["tracks"][h] = []
        if spec["tracks"] and draw(st.integers(0, 2)) == 0:
            h = draw(st.sampled_from(sorted(spec["tracks"])))
            spec["tracks"][h] = []
    names = [n for n, _ in S.sections_of(spec)]
    order = draw(st.permutations(names))
    nunk = draw(st.sampled_from([0, 0, 1, 1, 2, 3]))
    unknown = []
    used = set()
    for _ in range(nunk):
        if unknown and draw(st.integers(0, 3)) == 0:
            name = unknown[-1][0]          # the same unknown name again (with another body)
        else:
            name = draw(unknown_names.filter(lambda n: n not in used))
        used.add(name)
        body = draw(st.lists(body_lines, max_size=5))
        pos = draw(st.integers(0, len(names)))
        unknown.append([name, body, pos])
    return {"spec": spec, "order": list(order), "unknown": unknown}


def strat_cases(ctx: Ctx):
    return _cases(ctx)


def _parse_path(data: bytes, want=None):
    with tempfile.TemporaryDirectory(dir=_work_dir()) as d:
        p = os.path.join(d, "notes.chart")
        with open(p, "wb") as f:
            f.write(data)
        from pathlib import Path
        return L.Chart.from_filepath(Path(p), want_tracks=want)


def _same(ctx, what, base, base_obs, other, rc):
    o = observation(other)
    if o != base_obs:
        ctx.fail(what, f"observation differs: {diff_paths(base_obs, o)}", rc)
        return False
    if not (base == other) or (base != other):
        ctx.fail(what, "observations equal but chart == base is False", rc)
        return False
    return True


def check_case(ctx: Ctx, case) -> None:
    spec = case["spec"]
    secs = S.sections_of(spec)
    text = S.render_sections(secs)
    rc = {"text": text, "order": case.get("order"), "unknown": case.get("unknown")}
    # (a) conformance + no warnings (for a quarter of the cases with DEBUG logging effective)
    with C.capture_logs(debug=len(text) % 4 == 2) as recs:
        try:
            base = L.parse(text)
        except Exception as e:  # noqa: BLE001
            ctx.fail("chart-parses", f"well-formed chart rejected: {type(e).__name__}: {e}", rc)
            return
    d = C.conformance_diff(base, spec)
    if d:
        ctx.fail("routing-conformance", f"parsed chart differs from the model of the file: {d}", rc)
        return
    if recs:
        ctx.fail("no-warnings", f"well-formed chart logged {[r.getMessage() for r in recs][:3]}", rc)
    md = base.metadata
    if md.name != "first marker" or md.charter != "last marker":
        ctx.fail("song-framing", f"[Song] first/last line lost: name={md.name!r} charter={md.charter!r}",
                 rc)
    base_obs = observation(base)
    # (b) section order
    order = case.get("order")
    identity = True
    if order:
        pos = {n: i for i, n in enumerate(order)}
        psecs = sorted(secs, key=lambda s: pos[s[0]])
        identity = [s[0] for s in psecs] == [s[0] for s in secs]
        ptext = S.render_sections(psecs)
        try:
            other = L.parse(ptext)
        except Exception as e:  # noqa: BLE001
            ctx.fail("order-independent", f"permuted sections rejected: {type(e).__name__}: {e}",
                     dict(rc, permuted=ptext))
            return
        _same(ctx, "order-independent", base, base_obs, other, dict(rc, permuted=ptext))
    # (c)/(d) newline styles and BOM
    crlf = S.render_sections(secs, newline="\r\n")
    variants = [("crlf-stringio", lambda: L.Chart.from_file(io.StringIO(crlf))),
                ("lf-path", lambda: _parse_path(text.encode("utf-8"))),
                ("crlf-path", lambda: _parse_path(crlf.encode("utf-8"))),
                ("bom-lf-path", lambda: _parse_path(b"\xef\xbb\xbf" + text.encode("utf-8"))),
                ("bom-crlf-path", lambda: _parse_path(b"\xef\xbb\xbf" + crlf.encode("utf-8"))),
                # the file ends right behind the last '}' (no line end after the last line): still every section
                ("lf-no-final-newline", lambda: L.Chart.from_file(io.StringIO(text[:-1]))),
                ("crlf-no-final-newline-path", lambda: _parse_path(crlf[:-2].encode("utf-8")))]
    for name, fn in variants:
        try:
            other = fn()
        except Exception as e:  # noqa: BLE001
            ctx.fail(f"variant-{name}", f"{name} variant rejected: {type(e).__name__}: {e}", rc)
            continue
        _same(ctx, f"variant-{name}", base, base_obs, other, rc)
        ctx.classes[f"variant_{name}"] += 1
    # (c') characters that str.splitlines() also treats as line ends (VT, FF, FS, GS, RS, NEL, LS, PS) inside a
    # [Song] value, a global event text and a track-event word.  What such a file MEANS is not asserted (that is
    # a matter of what a line is), only the statement's own relation: LF and CRLF renderings of it parse alike
    hb = core.h64(text) >> 9
    if hb % 4 == 0:
        ch = "\x0b\x0c\x1c\x1d\x1e\x85\u2028\u2029"[(hb >> 3) % 8]
        bsecs = []
        for n, b in secs:
            b = list(b)
            if n == "Song":
                b.append(f'Name = "Side A{ch}Side B"')
            elif n == "Events":
                b.insert(0, f'0 = E "lyric la{ch}la"')
            elif n in S.HEADERS and b:
                b.append(b[-1].split(" ", 1)[0] + f" = E so{ch}lo")
            bsecs.append((n, b))
        outs = []
        for nl_ in ("\n", "\r\n"):
            try:
                outs.append(("ok", observation(L.Chart.from_file(io.StringIO(S.render_sections(bsecs, newline=nl_), newline="")))))
            except Exception as e:  # noqa: BLE001
                outs.append(("raises", type(e).__name__))
        if outs[0] != outs[1]:
            d = diff_paths(outs[0][1], outs[1][1]) if outs[0][0] == outs[1][0] == "ok" else [outs[0][:1] + outs[1][:1]]
            ctx.fail("variant-crlf-stringio", f"a file containing {ch!r} parses differently with LF and with CRLF line "
                                              f"ends: {d}", dict(rc, char=ch))
        ctx.classes["lf_crlf_with_other_line_boundary_chars"] += 1
    # (e) unknown sections
    unknown = case.get("unknown") or []
    if unknown:
        usecs = list(secs)
        for name, body, pos in sorted(unknown, key=lambda u: -u[2]):
            usecs.insert(min(pos, len(usecs)), ("\x00RAW", (name, body)))
        out_lines = []
        for name, body in usecs:
            if name == "\x00RAW":
                out_lines += [f"[{body[0]}]", "{"] + list(body[1]) + ["}"]
            else:
                out_lines += [f"[{name}]", "{"] + ["  " + b for b in body] + ["}"]
        utext = "\n".join(out_lines) + "\n"
        with C.capture_logs() as recs:
            try:
                other = L.parse(utext)
            except Exception as e:  # noqa: BLE001
                ctx.fail("unknown-ignored", f"chart with unknown sections rejected: "
                                            f"{type(e).__name__}: {e}", dict(rc, with_unknown=utext))
                return
        if _same(ctx, "unknown-ignored", base, base_obs, other, dict(rc, with_unknown=utext)):
            want = sorted(u[0] for u in unknown)
            got_recs = C.records_of(recs, "chartparse.chart")
            if len(set(want)) < len(want):
                # a name that occurs twice: reported at least once and at most once per occurrence
                msgs = [r.getMessage() for r in got_recs]
                why = None
                if not (len(set(want)) <= len(got_recs) <= len(want)):
                    why = f"{len(set(want))}..{len(want)} reports expected, {len(got_recs)} log records"
                for nm in set(want):
                    if nm.strip() and not any(nm in m for m in msgs):
                        why = f"{nm!r} is not reported"
            else:
                why = C.reports_match(got_recs, want)
            if why:
                ctx.fail("unknown-reported", f"unknown sections {want} are not reported exactly once "
                                             f"each: {why}; records {[r.getMessage()[:80] for r in recs][:4]}",
                         dict(rc, with_unknown=utext))
            others = [r.getMessage() for r in recs if r.name != "chartparse.chart"]
            if others:
                ctx.fail("unknown-reported", f"unexpected log records {others[:3]}",
                         dict(rc, with_unknown=utext))
    # (g) every parser receives ALL the body lines of its section: a line that says nothing to a section's parser
    # (junk, a blank line, a line of another section's kind) in front of or between the real lines of
    # [SyncTrack], [Events] and the instrument sections takes nothing away from what follows it
    hj = core.h64(text) >> 5
    if hj % 3 == 0:
        junk_by = {"SyncTrack": ["garbage", "", '0 = E "x"', "0 = N 0 0"], "Events": ["garbage", "  ", "0 = B 120000", "0 = N 1 0"],
                   "*": ["garbage", "", "0 = B 120000", '0 = E "section x"', "0 = TS 4"]}
        jsecs = []
        for si, (n, b) in enumerate(secs):
            if n == "Song" or not b:
                jsecs.append((n, b))
                continue
            pool = junk_by.get(n, junk_by["*"])
            pos = (hj >> (si % 20)) % len(b)              # never behind the last real line only
            jsecs.append((n, list(b[:pos]) + [pool[(hj >> (3 + si % 17)) % len(pool)]] + list(b[pos:])))
        jtext = S.render_sections(jsecs)
        try:
            other = L.parse(jtext)
        except Exception as e:  # noqa: BLE001
            ctx.fail("junk-line-changes-section", f"chart with one junk line per section rejected: {type(e).__name__}: {e}",
                     dict(rc, with_junk=jtext))
        else:
            _same(ctx, "junk-line-changes-section", base, base_obs, other, dict(rc, with_junk=jtext))
        ctx.classes["junk_line_per_section"] += 1
    # (f) required sections
    lookalikes = ["{} (backup)", "My{}", "{}2", "Old{}", "{}_old", "{}s", "x{}x", "{} ", " {}"]
    for ri, req in enumerate(S.REQUIRED):
        rest = [s for s in secs if s[0] != req]
        hk = core.h64(text) >> (8 * ri)
        if hk % 3:
            # the required section is still lacking when a section whose name merely CONTAINS the required name
            # (a backup copy, another spelling) is present: such a section is an unrecognised one
            body = next(s[1] for s in secs if s[0] == req)
            names = [lookalikes[(hk >> 2) % len(lookalikes)].format(req), req.lower(), req.upper(),
                     req[:-1], req + req][: 1 + (hk >> 5) % 3]
            extra = [(nm, body if (hk >> 7 + i) % 2 else []) for i, nm in enumerate(dict.fromkeys(names))
                     if nm not in S.REQUIRED and nm not in S.HEADERS]
            pos = (hk >> 9) % (len(rest) + 1)
            rest = rest[:pos] + extra + rest[pos:]
            ctx.classes["missing_required_with_lookalike"] += 1
        dtext = S.render_sections(rest)
        try:
            L.parse(dtext)
        except ValueError:
            ctx.classes["missing_required_ValueError"] += 1
        except Exception as e:  # noqa: BLE001
            ctx.fail("missing-required", f"file without [{req}] raised {type(e).__name__}: {e} "
                                         f"instead of ValueError", dict(rc, dropped=req))
        else:
            ctx.fail("missing-required", f"file without [{req}] was accepted", dict(rc, dropped=req))
    ntr = len(spec["tracks"])
    for h in spec["tracks"]:
        ctx.classes[f"hdr_{h}"] += 1
    ctx.note([text, order, unknown], nontrivial=(ntr >= 2 and not identity) or bool(unknown),
             classes=[f"tracks_{min(ntr, 6)}", f"unknown_{len(unknown)}",
                      "order_identity" if identity else "order_permuted"],
             sample={"sections": [s[0] for s in secs], "order": order,
                     "unknown": unknown, "text_head": text[:300]})


# ------------------------------------------------------------------------------------------------
def _track_for(k: int, h: str):
    """Distinctive content derived from the key index k."""
    return [[100 + k, "N", k % 5, 0], [1000 + k, "N", (k // 5) % 5, k], [1000 + k, "N", 4 if (k // 5) % 5 != 4 else 0, k + 1],
            [2000 + k, "S", 2, 10 + k], [3000 + k, "N", 7, 0], [3000 + k, "E", f"trk{k}"]]


def header_cases(ctx: Ctx):
    base = {"res": 192, "sync": [[0, "TS", 4], [0, "B", 120000], [500, "B", 90000]],
            "events": [[10, "section a"], [20, "lyric b"], [30, "c"]]}
    for k, h in enumerate(S.HEADER_LIST):
        spec = add_markers(dict(base, tracks={h: _track_for(k, h)}), 5000)
        yield {"spec": spec, "order": None, "unknown": []}
    allspec = add_markers(dict(base, tracks={h: _track_for(k, h) for k, h in enumerate(S.HEADER_LIST)}),
                          5000)
    names = [n for n, _ in S.sections_of(allspec)]
    yield {"spec": allspec, "order": list(reversed(names)), "unknown": [["Foo", ["x"], 7]]}
    yield {"spec": allspec, "order": names[3:] + names[:3], "unknown": []}
    # a HUGE file (> 1.2 million characters, ~70 000 lines): anything that reads or frames the text in
    # blocks meets many block boundaries inside lines
    big_tracks = {}
    for k, h in enumerate(["ExpertSingle", "HardSingle", "ExpertDoubleBass", "ExpertDrums", "EasyKeyboard"]):
        items = []
        for j in range(14000):
            t = 192000 + j * 48 + k
            items.append([t, "N", (j + k) % 5, 0 if j % 7 else 24])
            if j % 11 == 0:
                items.append([t, "N", (j + k + 2) % 5, 0 if j % 7 else 24])
        big_tracks[h] = items
    big = add_markers(dict(base, tracks=big_tracks,
                           events=base["events"] + [[1000 + 10 * j, f"lyric la{j}"] for j in range(3000)]), 900000)
    yield {"spec": big, "order": None, "unknown": []}
    # all 40 sections with one and the same body
    same = add_markers(dict(base, tracks={h: _track_for(7, "x") for h in S.HEADER_LIST}), 5000)
    same["tracks"] = {h: list(same["tracks"][S.HEADER_LIST[0]]) for h in S.HEADER_LIST}
    yield {"spec": same, "order": None, "unknown": []}
    yield {"spec": same, "order": list(reversed([n for n, _ in S.sections_of(same)])), "unknown": []}


PARTS: list[Part] = [
    enum_part("headers", header_cases, check_case, {"quick": 4, "thorough": 4}),
    hyp_part("cases", strat_cases, check_case, {"quick": 250, "thorough": 4500},
             {"quick": 8, "thorough": 16}),
]
