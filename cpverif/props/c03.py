"""C03 — sustains, end tick, end time and last-note-end are faithful to the lines."""
from __future__ import annotations

import itertools

from hypothesis import strategies as st

from cpverif import spec as S
from cpverif import strategies as G
from cpverif import trackcheck as T
from cpverif.core import Ctx, Part, custom_part, hyp_part
from cpverif.lib import L
from cpverif.model import FORCED, OPEN, TAP, TempoModel, expected_notes, td_us

RULE = (
    "part table (exhaustive every run): every lane subset x every assignment of lengths from {0, a, b} "
    "(a != b derived from VERIF_SEED) to its active lanes x flags {none, tap, forced, both} with NON-ZERO "
    "length fields on the flag lines, plus open x {0, a} x flags: 4*(4^5-1)+8 note patterns, packed "
    "into tracks over a 4-segment tempo map so that sustains cross tempo changes. part tracks: "
    "Hypothesis tracks over multi-segment tempo maps (sustains drawn to end inside later segments / on "
    "a tempo tick), empty tracks, tracks whose longest-ending note is not the last one. Oracle: "
    "sustain = the single length when all active lanes agree (or open) else the 5-tuple with None for "
    "inactive lanes; longest = max; end_tick = tick + max; end_timestamp == un-hinted query(end_tick), "
    "within the C01 tolerance of the exact time and >= timestamp; last_note_end_timestamp == "
    "max(end_timestamp), None iff no notes. Non-trivial iff a chord has unequal lengths, or the orange "
    "lane has a non-zero length, or a sustain crosses a tempo change, or the longest end is not on the "
    "last note; distinct = distinct (tempo map, section text)."
    ' Also: flag lines before / between the lane lines of a chord; ticks that carry flag lines only (not asserted to yield an event; if they do, its sustain must be 0).'
)
ASSUMPTIONS = [
    "as C02 (open alone and first in its group, one line per (tick, lane), sorted N lines, no forced "
    "first note); times below 10^6 s for the exact-time comparison",
]
HEADER = "HardDoubleBass"


def _check_track(ctx: Ctx, res, tempo, items, rc, exhaustive_hint=False, fmt=0):
    exp = expected_notes(res, items)
    lines = [S.track_line(it) for it in items]
    header = S.HEADER_LIST[(len(lines) * 11 + res) % 40]
    chart, tr = T.parse_track(ctx, res, tempo, lines, header, rc, fmt=fmt)
    if tr is None:
        return None
    # ticks that carry flag lines only (no lane, no open note): whether such a tick yields an event at all is
    # not asserted here, but IF it does, the flag lines' length fields must not show up in it
    by_tick: dict = {}
    for it in items:
        if it[1] == "N":
            by_tick.setdefault(it[0], []).append(it[2])
    flag_only = {t for t, idxs in by_tick.items() if all(i in (5, 6) for i in idxs)}
    if flag_only:
        got = {e.tick for e in tr.note_events}
        exp = [x for x in exp if not (x["tick"] in flag_only and x["tick"] not in got)]
        ctx.classes["flag_only_ticks"] += 1
    if not T.compare_notes(ctx, tr, exp, rc, {"ticks", "lanes", "sustain"}):
        return None
    tm = TempoModel(res, tempo)
    bpm = chart.sync_track.bpm_events
    crossing = 0
    max_end = None
    for e, x in zip(tr.note_events, exp):
        end_us = td_us(e.end_timestamp)
        try:
            q = td_us(bpm.timestamp_at_tick_no_optimize_return(x["end_tick"]))
        except Exception as ex:  # noqa: BLE001
            ctx.fail("query-answers", f"query({x['end_tick']}) raised {type(ex).__name__}: {ex}", rc)
            return None
        if end_us != q:
            ctx.fail("end-timestamp", f"note at tick {x['tick']} (end tick {x['end_tick']}): "
                                      f"end_timestamp {end_us} us != query {q} us", rc)
        if not tm.ok(end_us, x["end_tick"]):
            ctx.fail("end-timestamp-exact",
                     f"note at tick {x['tick']}: end_timestamp {end_us} us, exact time of end tick "
                     f"{x['end_tick']} is {float(tm.exact_us(x['end_tick'])):.3f} us", rc)
        if end_us < td_us(e.timestamp):
            ctx.fail("end-not-before-start", f"note at tick {x['tick']}: end {end_us} < start "
                                             f"{td_us(e.timestamp)}", rc)
        if tm.governing_fast(x["end_tick"]) != tm.governing_fast(x["tick"]):
            crossing += 1
        max_end = end_us if max_end is None else max(max_end, end_us)
    last = tr.last_note_end_timestamp
    if not exp:
        if last is not None:
            ctx.fail("last-note-end", f"track without notes reports last_note_end_timestamp {last}", rc)
    else:
        if last is None or td_us(last) != max_end:
            ctx.fail("last-note-end", f"last_note_end_timestamp {last if last is None else td_us(last)} "
                                      f"!= max end timestamp {max_end} us", rc)
    unequal = any(isinstance(x["sustain"], tuple) for x in exp)
    orange = any(x["value"][4] and (x["sustain"][4] if isinstance(x["sustain"], tuple)
                                    else x["sustain"]) for x in exp)
    longest_not_last = bool(exp) and max(range(len(exp)), key=lambda i: exp[i]["end_tick"]) != len(exp) - 1
    return {"unequal": unequal, "orange": bool(orange), "crossing": crossing,
            "longest_not_last": longest_not_last, "n": len(exp), "lines": lines}


# ------------------------------------------------------------------------------------------------
def _patterns(a: int, b: int):
    """All (mask, lens, tap, forced) of the table."""
    for mask in range(1, 32):
        lanes = [i for i in range(5) if mask >> i & 1]
        for combo in itertools.product((0, a, b), repeat=len(lanes)):
            lens = [0] * 5
            for i, v in zip(lanes, combo):
                lens[i] = v
            for tap, forced in ((None, None), (37, None), (None, 11), (5, 9)):
                yield mask, lens, tap, forced
    for ln in (0, a):
        for tap, forced in ((None, None), (37, None), (None, 11), (5, 9)):
            yield 0, ln, tap, forced


TABLE_RES = 96
TABLE_TEMPO = [[0, 120000], [2000, 77777], [9000, 240000], [20000, 60001]]


def check_table(ctx: Ctx, case) -> None:
    """case: {"a","b","chunk","of"}: the chunk-th slice of the pattern table, one track."""
    a, b = case["a"], case["b"]
    pats = list(_patterns(a, b))
    mine = pats[case["chunk"]::case["of"]]
    items = [[0, "N", 2, 0]]  # plain first note so that forced flags are legal everywhere
    tick = 50
    for mask, lens, tap, forced in mine:
        items += G.render_note_items(tick, mask, lens, tap, forced)
        tick += 131
    rc = {"res": TABLE_RES, "tempo": TABLE_TEMPO, "case": case}
    info = _check_track(ctx, TABLE_RES, TABLE_TEMPO, items, rc,
                        fmt=(case["chunk"] + 1) * 7 if case["chunk"] % 3 == 1 else 0)
    if info is None:
        return
    # each pattern is one distinct case by construction
    nt = sum(1 for mask, lens, tap, forced in mine
             if mask and (len({lens[i] for i in range(5) if mask >> i & 1}) > 1 or lens[4]))
    ctx.note_bulk(len(mine), nt, classes={"patterns": len(mine), "crossing_sustains": info["crossing"]},
                  samples=[{"lines": info["lines"][1:7], "a": a, "b": b}])


def drive_table(ctx: Ctx) -> None:
    a = 100 + ctx.seed % 4000
    b = a + 1 + (ctx.seed // 7) % 3000
    of = 24
    for chunk in range(of):
        if chunk % ctx.nshards != ctx.shard:
            continue
        case = {"a": a, "b": b, "chunk": chunk, "of": of}
        ctx.current = case
        check_table(ctx, case)
    ctx.exhaustive["table"] = True


# ------------------------------------------------------------------------------------------------
@st.composite
def _tracks(draw, ctx):
    tmap = draw(G.tempo_maps(max_segments=ctx.pick(8, 24), min_segments=1))
    tm = TempoModel(tmap["res"], tmap["tempo"])
    max_tick = max(tm.max_tick_within(G.TIME_LIMIT_S) - 1, tm.ticks[-1])
    tick_st = G.tick_strategy(tm, max_tick)
    nmin = draw(st.sampled_from([0, 1, 2, 3, 3, 3, 4, 4]))
    ticks = sorted(draw(st.sets(tick_st, min_size=min(nmin, max_tick + 1), max_size=ctx.pick(12, 30))))
    notes = []
    for j, t in enumerate(ticks):
        mask = draw(G.lane_subsets)
        later = [T_ for T_ in tm.ticks if T_ > t]
        targets = [T_ - t for T_ in later[:3]] + [T_ - t + 1 for T_ in later[:2]] + \
                  [T_ - t - 1 for T_ in later[:2] if T_ - t - 1 >= 0]
        mx = max_tick - t
        opts = [st.just(0), st.integers(0, min(mx, 400)), st.integers(0, mx)]
        # lengths that stand in a relation to the rest of the chart: ending on / next to the following
        # notes, as long as the gap just played, the previous note's length again, fractions of a beat
        r = tmap["res"]
        rel = {r, r // 2, r // 3, r // 4, 2 * r, 4 * r, r - 1, r + 1}
        for d in (1, 2):
            if j + d < len(ticks):
                rel |= {ticks[j + d] - t - 1, ticks[j + d] - t, ticks[j + d] - t + 1}
        if j:
            rel.add(t - ticks[j - 1])
            prev = notes[-1]["lens"]
            rel |= set(prev) if isinstance(prev, list) else {prev}
        rel = sorted(x for x in rel if 0 < x <= mx)
        if rel:
            opts.append(st.sampled_from(rel))
        if targets:
            opts.append(st.sampled_from([x for x in targets if x <= mx] or [0]))
            opts.append(st.sampled_from([x for x in targets if x <= mx] or [0]))
        len_st = st.one_of(*opts)
        if mask == 0:
            lens = draw(len_st)
        else:
            style = draw(st.integers(0, 3))
            if style == 0:
                v = draw(len_st)
                lens = [v] * 5
            elif style == 1:
                v = draw(len_st)
                lens = [v if draw(st.booleans()) else 0 for _ in range(5)]
            else:
                lens = [draw(len_st) for _ in range(5)]
        fl = draw(st.integers(0, 9))
        tap = draw(st.sampled_from([0, 37, 100000])) if fl in (7, 9) else None
        forced = draw(st.sampled_from([0, 11, 99999])) if fl in (8, 9) and j > 0 else None
        note = {"tick": t, "mask": mask, "lens": lens, "tap": tap, "forced": forced}
        # the lane lines of a chord in another than ascending lane order (each line names its own lane)
        if mask and bin(mask).count("1") > 1 and draw(st.integers(0, 2)) == 0:
            note["lane_order"] = list(draw(st.permutations(range(5))))
        # an "echo" of the previous chord: the same lanes, written in another lane order, with the same
        # lengths in FILE order (so each length now belongs to another lane)
        prev = notes[-1] if notes else None
        if prev and prev["mask"] and bin(prev["mask"]).count("1") > 1 and isinstance(prev["lens"], list) \
                and draw(st.integers(0, 4)) == 0:
            lanes = [i for i in range(5) if prev["mask"] >> i & 1]
            po = prev.get("lane_order")
            prev_file = sorted(lanes, key=lambda i: po[i]) if po else lanes
            new_file = list(draw(st.permutations(lanes)))
            new_lens = [0] * 5
            for a, b in zip(prev_file, new_file):
                new_lens[b] = min(prev["lens"][a], mx)
            order = [0] * 5
            for pos, lane in enumerate(new_file):
                order[lane] = pos
            note = {"tick": t, "mask": prev["mask"], "lens": new_lens, "tap": tap, "forced": forced,
                    "lane_order": order}
        if note["mask"] and (note["tap"] is not None or note["forced"] is not None) and draw(st.integers(0, 2)) == 0:
            # the flag lines before / between the lane lines of the chord (every line names its own lane)
            note["flag_pos"] = [draw(st.integers(0, 5)), draw(st.integers(0, 5))]
        notes.append(note)
    phrases = [[t, min(max_tick - t, ln)] for t, ln in
               sorted(draw(st.lists(st.tuples(tick_st, st.integers(0, 2000)), max_size=2)))]
    items = G.merge_track_items(notes, phrases, [])
    if ticks and draw(st.integers(0, 4)) == 0:
        # ticks that carry nothing but flag lines, with non-zero length fields ("flag lines never contribute a
        # length"); never a forced flag before the first real note (refused by design)
        used = set(ticks)
        for t in draw(st.lists(tick_st, min_size=1, max_size=3, unique=True)):
            if t in used:
                continue
            used.add(t)
            mx = max_tick - t
            kinds = draw(st.sampled_from([[6], [6], [5], [5, 6], [6, 5]]))
            for k in kinds:
                if k == 5 and t < ticks[0]:
                    continue
                items.append([t, "N", k, min(mx, draw(st.sampled_from([0, 1, 37, 96, tmap["res"], 100000])))])
        items.sort(key=lambda it: it[0])
    lifted = G.lift_items(draw, items, tmap["res"], one_in=10, allow64=False)
    if lifted:
        # the whole track moved up across 2^31 / 2^32 / 2^33 under one (the fastest) tempo
        items, tempo, _ = lifted
        return {"res": tmap["res"], "tempo": tempo, "items": items, "fmt": 0}
    return {"res": tmap["res"], "tempo": tmap["tempo"], "items": items,
            "fmt": draw(st.one_of(st.just(0), st.just(0), st.integers(1, 10 ** 6)))}


def strat_tracks(ctx: Ctx):
    return _tracks(ctx)


def check_tracks(ctx: Ctx, case) -> None:
    rc = case
    info = _check_track(ctx, case["res"], case["tempo"], case["items"], rc, fmt=case.get("fmt", 0))
    if info is None:
        ctx.note(case)
        return
    nt = info["unequal"] or info["orange"] or info["crossing"] > 0 or info["longest_not_last"]
    ctx.note([case["res"], case["tempo"], info["lines"], case.get("fmt", 0)], nontrivial=nt,
             classes=[k for k in ("unequal", "orange", "longest_not_last") if info[k]]
             + (["crossing"] if info["crossing"] else []) + (["empty_track"] if info["n"] == 0 else []),
             sample={"res": case["res"], "tempo": case["tempo"][:5], "lines": info["lines"][:16]})


PARTS: list[Part] = [
    custom_part("table", drive_table, check_table, {"quick": 8, "thorough": 8}),
    hyp_part("tracks", strat_tracks, check_tracks, {"quick": 600, "thorough": 14000},
             {"quick": 8, "thorough": 16}),
]
