"""C16 — notes_per_second is count-in-closed-interval over interval length."""
from __future__ import annotations

import math
from datetime import timedelta

from hypothesis import strategies as st

from cpverif import spec as S
from cpverif import strategies as G
from cpverif.core import Ctx, Part, hyp_part
from cpverif.lib import L
from cpverif.model import expected_notes, TempoModel, ref_nps, td_us

RULE = (
    "Hypothesis charts with 1-2 tracks (0..25 notes, sustains, multi-segment tempo maps), absent tracks "
    "(instrument absent; instrument present but difficulty absent) and note-less tracks; per chart ~12 "
    "calls in every overload form: (), (tick), (tick, tick), (time), (time, time). Bounds are drawn "
    "symbolically relative to the notes: exactly a note's tick / timestamp / sustain end, +-1 tick / "
    "+-1 us around them, equal bounds, reversed bounds, bounds outside all notes, absolute values. "
    "Oracle: count{start <= note.timestamp <= end} / (end-start) seconds, tick bounds converted with "
    "the public un-hinted query AND required to agree with the exact rational tempo model of the written map "
    "(C01's tolerance), bounds also on / around the last tempo changes of short and LONG maps, default start 0, default end max(end_timestamp); math.isclose "
    "rel_tol 1e-12; ValueError for non-positive length, absent track, note-less track. Metamorphic: "
    "the tick-bounded call equals the time-bounded call with the converted bounds. Non-trivial iff >= 1 "
    "bound coincides exactly with a note time and >= 1 note is excluded; distinct = distinct (chart, call)."
    " An omitted end is additionally required to agree (C01's tolerance) with the exact time of the latest end tick of the WRITTEN notes."
)
ASSUMPTIONS = [
    "only the argument combinations the overloads allow (mixing tick and time trips an assert by design); "
    "bounds are non-negative; note timestamps themselves are taken from the parsed chart (their "
    "correctness is C01's subject)",
]

_bound = st.one_of(
    st.tuples(st.just("note"), st.integers(0, 30), st.sampled_from([0, 0, 0, -1, 1])),
    st.tuples(st.just("end"), st.integers(0, 30), st.sampled_from([0, 0, -1, 1])),
    st.tuples(st.just("abs"), st.integers(0, 10 ** 7), st.just(0)),
    st.tuples(st.just("zero"), st.just(0), st.just(0)),
    st.tuples(st.just("far"), st.integers(1, 10 ** 6), st.just(0)),
    # exactly on an anchor's tick / time (anchors are literal times that pin nothing in the tempo map)
    st.tuples(st.just("anchor"), st.integers(0, 5), st.sampled_from([0, 0, 1])),
    # around a tempo change, counted from the LAST one (v = 0): on it, just before, just after, well after
    st.tuples(st.just("tempo"), st.sampled_from([0, 0, 0, 1, 2, 5, 40]), st.sampled_from([0, -1, 1, 50])),
)
_call = st.builds(
    lambda form, a, b, trk, same, rev: {"form": form, "a": list(a), "b": list(b), "track": trk,
                                        "same": same, "reverse": rev},
    st.sampled_from(["none", "tick", "tick_tick", "tick_tick", "time", "time_time", "time_time"]),
    _bound, _bound, st.integers(0, 9), st.integers(0, 9).map(lambda x: x == 0),
    st.integers(0, 9).map(lambda x: x == 0))


@st.composite
def _maybe_unsorted(draw, c):
    # a fifth of the charts have their tick groups permuted (tracks not in tick order)
    if draw(st.integers(0, 4)) == 0:
        return dict(c, spec=G.unsorted_variant(c["spec"], draw))
    return c


def strat_cases(ctx: Ctx):
    return st.builds(
        lambda c, calls: {"spec": c["spec"], "max_tick": c["max_tick"], "calls": calls},
        st.integers(0, 5).flatmap(lambda mn: G.chart_specs(
            max_segments=ctx.pick(6, 16), max_tracks=2, min_tracks=1, max_notes=25, max_events=1,
            max_ts=1, max_anchors=3, min_notes=min(mn, 3), long_one_in=4)).flatmap(_maybe_unsorted),
        st.lists(_call, min_size=8, max_size=14))


def _resolve(bound, notes, bpm, as_tick: bool, max_tick: int, anchors=()):
    kind, v, delta = bound
    if kind == "anchor":
        if not anchors:
            kind = "zero"
        else:
            a = anchors[v % len(anchors)]
            if as_tick:
                return max(0, min(a.tick + delta, max_tick))
            return max(a.timestamp + timedelta(microseconds=delta), timedelta(0))
    if kind == "tempo":
        evs = list(bpm.events)
        ev = evs[max(0, len(evs) - 1 - v)]
        if as_tick:
            return max(0, min(ev.tick + delta, max_tick))
        return max(ev.timestamp + timedelta(microseconds=delta), timedelta(0))
    if kind == "zero" or (kind in ("note", "end") and not notes):
        return 0 if as_tick else timedelta(0)
    if kind == "abs":
        return min(v, max_tick) if as_tick else timedelta(microseconds=v * 1000)
    if kind == "far":
        if as_tick:
            return max_tick
        last = max((n.end_timestamp for n in notes), default=timedelta(0))
        return last + timedelta(microseconds=v)
    e = notes[v % len(notes)]
    if as_tick:
        t = (e.tick if kind == "note" else e.end_tick) + delta
        return max(0, min(t, max_tick))
    ts = (e.timestamp if kind == "note" else e.end_timestamp) + timedelta(microseconds=delta)
    return max(ts, timedelta(0))


def check_case(ctx: Ctx, case) -> None:
    spec = case["spec"]
    text = S.render(spec)
    rc0 = {"text": text}
    try:
        chart = L.parse(text)
    except Exception as e:  # noqa: BLE001
        ctx.fail("chart-parses", f"well-formed chart rejected: {type(e).__name__}: {e}", rc0)
        return
    bpm = chart.sync_track.bpm_events
    tm = TempoModel(spec["res"], [(x[0], x[2]) for x in spec["sync"] if x[1] == "B"])
    # a second, different chart kept alive and used between the calls (charts share no state)
    try:
        shadow = L.parse(S.render({"res": spec["res"] + 1, "sync": [[0, "TS", 4], [0, "B", 150000], [9, "B", 99000]],
                                   "events": [], "tracks": {"ExpertSingle": [[0, "N", 0, 0], [7, "N", 1, 0], [20, "N", 2, 5]]}}))
    except Exception:  # noqa: BLE001
        shadow = None
    present = list(spec["tracks"])
    inst_present = {S.HEADERS[h][0] for h in present}
    absent_same_inst = [h for h in S.HEADER_LIST if h not in present and S.HEADERS[h][0] in inst_present]
    absent_other = [h for h in S.HEADER_LIST if S.HEADERS[h][0] not in inst_present]
    for call in case["calls"]:
        sel = call["track"]
        if sel <= 6:
            h = present[sel % len(present)]
            status = "present"
        elif sel <= 7 and absent_same_inst:
            h = absent_same_inst[sel % len(absent_same_inst)]
            status = "absent_difficulty"
        else:
            h = absent_other[sel % len(absent_other)]
            status = "absent_instrument"
        inst, diff = L.Instrument[S.HEADERS[h][0]], L.Difficulty[S.HEADERS[h][1]]
        notes = []
        if status == "present":
            try:
                notes = list(chart.instrument_tracks[inst][diff].note_events)
            except KeyError:
                ctx.fail("track-present", f"track {h} missing", rc0)
                continue
        form = call["form"]
        as_tick = form.startswith("tick")
        anchors = list(chart.sync_track.anchor_events)
        a = _resolve(call["a"], notes, bpm, as_tick, case["max_tick"], anchors)
        b = _resolve(call["b"], notes, bpm, as_tick, case["max_tick"], anchors)
        if call["same"]:
            b = a
        if not call["reverse"] and form in ("tick_tick", "time_time") and b < a:
            a, b = b, a
        if call["reverse"] and form in ("tick_tick", "time_time") and a < b:
            a, b = b, a
        args = {"none": (), "tick": (a,), "tick_tick": (a, b), "time": (a,), "time_time": (a, b)}[form]
        shown = [x if isinstance(x, int) else f"{td_us(x)}us" for x in args]
        rc = {"text": text, "track": h, "form": form, "args": shown}
        # ---- oracle
        want_error = None
        want = None
        if status != "present":
            want_error = "absent track"
        elif not notes:
            want_error = "note-less track"
        else:
            try:
                if form == "none":
                    s_us, e_us = 0, None
                elif as_tick:
                    s_us = td_us(bpm.timestamp_at_tick_no_optimize_return(a))
                    e_us = td_us(bpm.timestamp_at_tick_no_optimize_return(b)) if form == "tick_tick" else None
                else:
                    s_us = td_us(a)
                    e_us = td_us(b) if form == "time_time" else None
            except Exception as e:  # noqa: BLE001
                ctx.fail("query-answers", f"tick conversion raised {type(e).__name__}: {e}", rc)
                continue
            if as_tick:
                # the interval a tick bound stands for is the exact tempo map's, not whatever the
                # library's own lookup says (same tolerance as C01: half a microsecond per segment)
                bad = [(t, us) for t, us in ((a, s_us), (b, e_us)) if us is not None and not tm.ok(us, t)]
                if bad:
                    t, us = bad[0]
                    ctx.fail("tick-bound-time", f"tick bound {t} stands for {float(tm.exact_us(t)):.3f} us in "
                                                f"the tempo map but is taken as {us} us", rc)
                    continue
            if e_us is None:
                e_us = max(td_us(n.end_timestamp) for n in notes)
                # "the track's last note end" is what the WRITTEN notes say (latest tick + longest lane length, in
                # the exact tempo map), not whatever end times the library has stored: judged with C01's tolerance
                # for tracks written in tick order
                items = spec["tracks"][h]
                nticks = [it[0] for it in items if it[1] == "N"]
                if nticks == sorted(nticks):
                    try:
                        exp_end = max(x["end_tick"] for x in expected_notes(spec["res"], items))
                    except AssertionError:
                        exp_end = None
                    ends_us = sorted(td_us(n.end_timestamp) for n in notes)
                    if exp_end is not None and not tm.ok(ends_us[-1], exp_end):
                        ctx.fail("default-end", f"the last note end of {h} is tick {exp_end} = "
                                                f"{float(tm.exact_us(exp_end)):.3f} us in the written chart, but the track's "
                                                f"latest stored note end is {ends_us[-1]} us", rc)
                        continue
            starts = [td_us(n.timestamp) for n in notes]
            want = ref_nps(starts, s_us, e_us)
            if want is None:
                want_error = "non-positive interval"
        # ---- call
        ctx.evaluations += 1
        if shadow is not None and len(shown) != 1:
            try:
                shadow.notes_per_second(L.Instrument.GUITAR, L.Difficulty.EXPERT, *args)
            except Exception:  # noqa: BLE001
                pass
        try:
            got = chart.notes_per_second(inst, diff, *args)
        except ValueError as e:
            if want_error is None:
                ctx.fail("nps-value", f"notes_per_second({h}, {shown}) raised ValueError({e}) but the "
                                      f"interval is positive; expected {want!r}", rc)
            ctx.classes[f"outcome_ValueError_{(want_error or 'unexpected').replace(' ', '_')}"] += 1
            got = None
        except Exception as e:  # noqa: BLE001
            ctx.fail("nps-error-type", f"notes_per_second({h}, {shown}) raised {type(e).__name__}: {e}",
                     rc)
            continue
        else:
            if want_error is not None:
                ctx.fail("nps-should-raise", f"notes_per_second({h}, {shown}) returned {got!r} for "
                                             f"{want_error}; ValueError expected", rc)
                continue
            if not (isinstance(got, float) and math.isclose(got, want, rel_tol=1e-12, abs_tol=0.0)):
                inside = sum(1 for t in starts if s_us <= t <= e_us)
                ctx.fail("nps-value", f"notes_per_second({h}, {shown}) = {got!r}; reference: {inside} "
                                      f"notes in [{s_us}, {e_us}] us -> {want!r}", rc)
                continue
            ctx.classes["outcome_value"] += 1
            # metamorphic: tick-bounded == time-bounded with converted bounds
            if as_tick:
                targs = (timedelta(microseconds=s_us),) if form == "tick" else \
                    (timedelta(microseconds=s_us), timedelta(microseconds=e_us))
                try:
                    got2 = chart.notes_per_second(inst, diff, *targs)
                except Exception as e:  # noqa: BLE001
                    ctx.fail("tick-time-agree", f"time-bounded twin of {shown} raised "
                                                f"{type(e).__name__}: {e}", rc)
                    continue
                if got2 != got:
                    ctx.fail("tick-time-agree", f"tick-bounded {got!r} != time-bounded {got2!r}", rc)
        coincide = False
        excluded = False
        if status == "present" and notes and want_error is None:
            coincide = s_us in starts or e_us in starts
            excluded = any(not (s_us <= t <= e_us) for t in starts)
        ctx.classes[f"form_{form}"] += 1
        ctx.classes[f"track_{status}"] += 1
        if coincide and excluded:
            key = [text, h, form, shown]
            before = len(ctx.nontrivial)
            from cpverif.core import h64
            ctx.nontrivial.add(h64(key))
            if len(ctx.nontrivial) != before and len(ctx.samples) < ctx.max_samples and \
                    len(ctx.nontrivial) in (1, 40, 200):
                ctx.samples.append({"track": h, "form": form, "args": shown,
                                    "note_starts_us": starts[:8], "result": got})
            ctx.classes["bound_coincides_and_excludes"] += 1


PARTS: list[Part] = [
    hyp_part("calls", strat_cases, check_case, {"quick": 300, "thorough": 7000},
             {"quick": 8, "thorough": 16}),
]
