"""C01 — event timestamps equal the exact tempo-map time of their tick."""
from __future__ import annotations

from hypothesis import strategies as st

from cpverif import spec as S
from cpverif import strategies as G
from cpverif.core import Ctx, Part, hyp_part
from cpverif.lib import L
from cpverif.model import TempoModel, td_us

RULE = (
    "Hypothesis builds tempo maps (resolution 1..10^6, tempo 0.001..10^6 BPM in 0.001 steps, 1..24 "
    "segments quick / ..120 thorough, gaps 1 tick .. 10^6 ticks) by construction under an exact time "
    "budget so that all times stay below 10^6 s. part chart: whole charts carrying time-signature, "
    "text/section/lyric, note (start and sustain end), star-power and track events at ticks on, next "
    "to, inside and far past the tempo changes, parsed with Chart.from_file; every reported timestamp "
    "is compared with an exact-rational tempo model (tolerance 0.5 us + 1 ns float slack per segment "
    "traversed; tick 0 exactly 0). part query: both public tick-to-time queries on the same kind of "
    "maps for such ticks. A case is non-trivial iff the map has >= 2 segments and at least one checked "
    "tick lies after the first tempo change with a non-integral exact microsecond value; distinct = "
    "distinct (resolution, tempo map, checked ticks)."
    ' [Song] extras include values and foreign keys that end in a known \'Field = value\' (e.g. \\"Screen Resolution = 96\\", HiResolution = 96); tempo values include round musical tempos.'
)
ASSUMPTIONS = [
    "times are kept below 10^6 s (the property's domain); float error of the five float operations "
    "is bounded by 1 ns per segment there",
    "a well-formed chart that fails to parse counts as a violation (no timestamp is reported)",
]


def _classes(tm: TempoModel):
    n = len(tm.tempo)
    seg = "seg1" if n == 1 else "seg2-4" if n <= 4 else "seg5-12" if n <= 12 else "seg13+"
    r = tm.res
    rc = "res192" if r == 192 else "res<13" if r < 13 else "res<2001" if r <= 2000 else "res_big"
    ns = [x for _, x in tm.tempo]
    bc = []
    if any(x < 1000 for x in ns):
        bc.append("bpm<1")
    if any(x > 10 ** 7 for x in ns):
        bc.append("bpm>1e4")
    if any(20_000 <= x <= 400_000 for x in ns):
        bc.append("bpm_realistic")
    return [seg, rc] + bc


def _tick_class(tm: TempoModel, t: int) -> str:
    if t in tm.ticks:
        return "on_change"
    if t + 1 in tm.ticks or t - 1 in tm.ticks:
        return "adjacent_change"
    if t > tm.ticks[-1]:
        return "tail"
    return "inside"


def check_chart(ctx: Ctx, case) -> None:
    spec = case["spec"]
    tm = TempoModel(case["res"], case["tempo"])
    text = S.render(spec)
    # a sibling chart (same tempo events, another resolution) is parsed first and stays alive: charts share
    # no state, whatever they have in common
    sibling = None
    if len(text) % 3 == 0:
        try:
            sibling = L.parse(S.render({"res": case["res"] * 2 + 1, "sync": spec["sync"], "events": spec["events"],
                                        "tracks": {}}))
        except Exception:  # noqa: BLE001  (not under test)
            sibling = None
    try:
        chart = L.parse(text)
    except Exception as e:  # noqa: BLE001
        ctx.fail("chart-parses", f"well-formed chart rejected: {type(e).__name__}: {e}",
                 {"res": case["res"], "tempo": case["tempo"], "spec": spec})
        return
    checked = []
    frac_after_first = False
    rc = {"res": case["res"], "tempo": case["tempo"], "spec": spec}

    def chk(kind: str, tick: int, td) -> None:
        nonlocal frac_after_first
        us = td_us(td)
        if not tm.ok(us, tick):
            ctx.fail("timestamp-exact",
                     f"{kind} at tick {tick}: reported {us} us, exact {float(tm.exact_us(tick)):.4f} us, "
                     f"error {float(tm.error_us(us, tick)):.4f} us > tolerance "
                     f"{float(tm.tolerance_us(tick)):.4f} us ({tm.segments_traversed(tick)} segments)",
                     rc)
        checked.append(tick)
        ctx.classes[f"kind_{kind}"] += 1
        ctx.classes[f"tick_{_tick_class(tm, tick)}"] += 1
        if tick > tm.ticks[min(1, len(tm.ticks) - 1)] - (0 if len(tm.ticks) > 1 else 0) and \
                len(tm.ticks) > 1 and tm.exact_us(tick).denominator != 1:
            frac_after_first = True

    st_ = chart.sync_track
    got_ticks = [e.tick for e in st_.bpm_events]
    if got_ticks != tm.ticks:
        ctx.fail("tempo-events", f"tempo ticks {got_ticks} != written {tm.ticks}", rc)
    for e in st_.bpm_events:
        chk("bpm", e.tick, e.timestamp)
    for e in st_.time_signature_events:
        chk("ts", e.tick, e.timestamp)
    g = chart.global_events_track
    for e in g.text_events:
        chk("text", e.tick, e.timestamp)
    for e in g.section_events:
        chk("section", e.tick, e.timestamp)
    for e in g.lyric_events:
        chk("lyric", e.tick, e.timestamp)
    n_events_written = sum(1 for it in spec["sync"] if it[1] == "TS") + len(spec["events"])
    n_events_seen = len(st_.time_signature_events) + len(g.text_events) + len(g.section_events) + \
        len(g.lyric_events)
    if n_events_seen != n_events_written:
        ctx.fail("events-present", f"{n_events_written} TS/global events written, {n_events_seen} "
                                   f"reported (a missing event reports no timestamp)", rc)
    for inner in chart.instrument_tracks.values():
        for tr in inner.values():
            for e in tr.note_events:
                chk("note", e.tick, e.timestamp)
                chk("note_end", e.end_tick, e.end_timestamp)
            for e in tr.star_power_events:
                chk("sp", e.tick, e.timestamp)
            for e in tr.track_events:
                chk("tev", e.tick, e.timestamp)
    for h, items in spec["tracks"].items():
        iname, dname = S.HEADERS[h]
        try:
            tr = chart.instrument_tracks[L.Instrument[iname]][L.Difficulty[dname]]
        except KeyError:
            ctx.fail("track-present", f"track {h} missing from parsed chart", rc)
            continue
        want_notes = len({it[0] for it in items if it[1] == "N"})
        want_sp = sum(1 for it in items if it[1] == "S")
        want_te = sum(1 for it in items if it[1] == "E")
        got = (len(tr.note_events), len(tr.star_power_events), len(tr.track_events))
        if got != (want_notes, want_sp, want_te):
            ctx.fail("events-present", f"track {h}: wrote {(want_notes, want_sp, want_te)} "
                                       f"note/sp/track events, parsed {got}", rc)
    key = [case["res"], case["tempo"], sorted(set(checked))]
    ctx.note(key, nontrivial=len(tm.ticks) >= 2 and frac_after_first, classes=_classes(tm),
             sample={"res": case["res"], "tempo": case["tempo"][:6],
                     "checked_ticks": sorted(set(checked))[:12], "n_checked": len(checked)})


def strat_chart(ctx: Ctx):
    return G.chart_specs(max_segments=ctx.pick(24, 60), max_tracks=2, max_notes=ctx.pick(10, 24),
                         max_events=5, max_ts=3).map(
        lambda c: {"spec": c["spec"], "res": c["res"], "tempo": c["tempo"]})


# ------------------------------------------------------------------------------------------------
@st.composite
def _query_cases(draw, max_segments):
    tmap = draw(G.tempo_maps(max_segments=max_segments))
    tm = TempoModel(tmap["res"], tmap["tempo"])
    max_tick = max(tm.max_tick_within(G.TIME_LIMIT_S) - 1, tm.ticks[-1])
    cands = G.interesting_ticks(tm, max_tick)
    extra = draw(st.lists(G.tick_strategy(tm, max_tick), max_size=12))
    if len(cands) > 80:
        idx = draw(st.lists(st.integers(0, len(cands) - 1), min_size=40, max_size=80))
        cands = [cands[i] for i in idx]
    return {"res": tmap["res"], "tempo": tmap["tempo"], "ticks": sorted(set(cands) | set(extra))}


def strat_query(ctx: Ctx):
    return _query_cases(ctx.pick(24, 120))


def check_query(ctx: Ctx, case) -> None:
    tm = TempoModel(case["res"], case["tempo"])
    spec = {"res": case["res"], "sync": [[0, "TS", 4]] + [[t, "B", n] for t, n in case["tempo"]],
            "events": [], "tracks": {}}
    try:
        chart = L.parse(S.render(spec))
    except Exception as e:  # noqa: BLE001
        ctx.fail("chart-parses", f"well-formed tempo map rejected: {type(e).__name__}: {e}", case)
        return
    bpm = chart.sync_track.bpm_events
    frac = False
    # a second chart with another tempo map, alive and queried in lock-step (no shared lookup state)
    stempo = [[t, n + 1 + n // 3] for t, n in case["tempo"]]
    try:
        if len(case["ticks"]) % 2:
            shadow = L.parse(S.render({"res": case["res"], "sync": [[0, "TS", 4]] + [[t, "B", n] for t, n in stempo],
                                       "events": [], "tracks": {}})).sync_track.bpm_events
        else:   # same tempo events, another resolution
            shadow = L.parse(S.render({"res": case["res"] * 2 + 1,
                                       "sync": [[0, "TS", 4]] + [[t, "B", n] for t, n in case["tempo"]],
                                       "events": [], "tracks": {}})).sync_track.bpm_events
    except Exception:  # noqa: BLE001
        shadow = None
    for t in case["ticks"]:
        if shadow is not None:
            try:
                shadow.timestamp_at_tick(t)
                shadow.timestamp_at_tick_no_optimize_return(t)
            except Exception:  # noqa: BLE001  (the shadow is not under test)
                pass
        for name, fn in (("no_optimize", lambda x: bpm.timestamp_at_tick_no_optimize_return(x)),
                         ("at_tick", lambda x: bpm.timestamp_at_tick(x)[0])):
            try:
                td = fn(t)
            except Exception as e:  # noqa: BLE001
                ctx.fail("query-answers", f"{name}({t}) raised {type(e).__name__}: {e}", case)
                continue
            us = td_us(td)
            if not tm.ok(us, t):
                ctx.fail("query-exact",
                         f"{name}({t}) = {us} us, exact {float(tm.exact_us(t)):.4f} us, error "
                         f"{float(tm.error_us(us, t)):.4f} > tol {float(tm.tolerance_us(t)):.4f} "
                         f"({tm.segments_traversed(t)} segments)", case)
        ctx.classes[f"tick_{_tick_class(tm, t)}"] += 1
        if len(tm.ticks) > 1 and t > tm.ticks[1] - 1 and tm.exact_us(t).denominator != 1:
            frac = True
    ctx.note(case, nontrivial=len(tm.ticks) >= 2 and frac, classes=_classes(tm),
             sample={"res": case["res"], "tempo": case["tempo"][:6], "ticks": case["ticks"][:12]})
    ctx.evaluations += 2 * len(case["ticks"]) - 1


PARTS: list[Part] = [
    hyp_part("chart", strat_chart, check_chart, {"quick": 500, "thorough": 6000},
             {"quick": 8, "thorough": 16}),
    hyp_part("query", strat_query, check_query, {"quick": 500, "thorough": 6000},
             {"quick": 4, "thorough": 16}),
]
