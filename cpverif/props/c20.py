"""C20 — every module is importable first; import order does not matter."""
from __future__ import annotations

import itertools
import json
import os
import subprocess
import sys

from hypothesis import strategies as st

from cpverif import core
from cpverif.core import Ctx, Part, custom_part, hyp_part
from cpverif.observe import diff_paths

RULE = (
    "Programs are import sequences over the 12 modules of the package, each run in one fresh interpreter "
    "(python -S, PYTHONPATH = the tree under test): ALL 12 first imports and ALL 132 ordered pairs "
    "(exhaustive every run) in both client spellings ('import chartparse.x' and 'from chartparse import x'), "
    "star imports of every module, "
    "the README's from-import forms and from-imports of public classes as first statement, and Hypothesis-drawn longer permutations (quick 48, thorough 1000+). After the "
    "program's own imports the remaining modules are imported in a canonical order, so every program is "
    "a full import order with the given prefix. Oracle: every import succeeds (exception text "
    "captured); the dump of every chartparse module's public names with (type, __module__, "
    "__qualname__, and for plain data such as tuples, lists, dicts and constants the value itself, element "
    "order included) and the identity partition 'which (module, name) pairs are bound to the same "
    "object' equals the dump of the reference order (chartparse.chart first); and what each from-import "
    "statement binds in the client's namespace is the same object as when the statement runs after the "
    "whole package was imported. Non-trivial iff the "
    "program's first module is not chartparse.chart; distinct = distinct statement sequence."
    ' The dump also records the repr of public type aliases (argument order included).'
)
ASSUMPTIONS = [
    "client programs are reduced to import orders (first imports and ordered pairs exhaustively, longer "
    "permutations sampled)",
]

NEEDS_LIB = False   # the library is only ever imported inside the fresh interpreters

MODULES = ["chart", "event", "exceptions", "globalevents", "hints", "instrument", "metadata", "sync", "tick",
           "time", "track", "util"]

WORKER_CODE = r'''
import json, sys, types, typing
job = json.load(sys.stdin)
out = {"ok": True}
done = []
bound = []
def _val(o, depth):
    # the VALUE of plain public data (registries, tables, constants), element order included
    if depth > 3:
        return "..."
    if isinstance(o, (int, float, str, bool, bytes, type(None))):
        return repr(o)[:200]
    if isinstance(o, (tuple, list)):
        return [type(o).__name__] + [_val(x, depth + 1) for x in o[:50]]
    if isinstance(o, (set, frozenset)):
        return [type(o).__name__] + sorted(str(_val(x, depth + 1)) for x in list(o)[:50])
    if isinstance(o, dict):
        return ["dict"] + [[str(_val(k, depth + 1)), _val(v, depth + 1)] for k, v in list(o.items())[:50]]
    if isinstance(o, (type, types.FunctionType, types.ModuleType)):
        return _desc(o)
    if type(o).__module__ == "typing" or isinstance(o, (types.GenericAlias, types.UnionType)):
        # type aliases are public data too: what they are made of, argument order included (typing.get_args)
        return "typing:" + repr(o)[:300]
    return type(o).__name__
def _desc(o):
    if isinstance(o, types.ModuleType):
        return "module:" + o.__name__
    return type(o).__name__ + ":" + str(getattr(o, "__module__", None)) + "." + str(getattr(o, "__qualname__", getattr(o, "__name__", None)))
try:
    for m in job.get("pre", []):
        __import__("chartparse." + m)
    for stmt in job["stmts"]:
        ns = {}
        exec(stmt, ns)
        done.append(stmt)
        # what the client's statement bound (for 'import a.b' the top package, for from-imports the names)
        bound.append(sorted([k, _desc(v)] for k, v in ns.items() if k != "__builtins__"))
        for k, v in ns.items():
            if k != "__builtins__" and isinstance(v, types.ModuleType) and v.__name__ == "chartparse":
                pass
    for m in job["modules"]:
        __import__("chartparse." + m)
except BaseException as e:
    import traceback
    out = {"ok": False, "failed_stmt": job["stmts"][len(done)] if len(done) < len(job["stmts"]) else "completion",
           "exc": [type(e).__name__, str(e)[:400]], "tb": traceback.format_exc()[-800:]}
else:
    names = {}
    ident = {}
    for modname in sorted(k for k in sys.modules if k == "chartparse" or k.startswith("chartparse.")):
        mod = sys.modules[modname]
        for n in sorted(dir(mod)):
            if n.startswith("_"):
                continue
            o = getattr(mod, n)
            names[modname + ":" + n] = [type(o).__name__, str(getattr(o, "__module__", None)),
                                        str(getattr(o, "__qualname__", getattr(o, "__name__", None))), _val(o, 0)]
            if isinstance(o, (type, types.FunctionType, types.ModuleType, typing.TypeVar)) or \
                    type(o).__name__ in ("NewType", "Logger", "_Feature"):
                ident.setdefault(id(o), []).append(modname + ":" + n)
    out["names"] = names
    out["partition"] = sorted(sorted(v) for v in ident.values())
    out["bound"] = bound
json.dump(out, sys.stdout)
'''


def run_program(stmts, timeout=120, pre=()):
    env = {k: v for k, v in os.environ.items() if k not in ("PYTHONPATH",)}
    env.update(PYTHONPATH=core.REPO, PYTHONDONTWRITEBYTECODE="1", PYTHONHASHSEED="0")
    job = {"stmts": stmts, "modules": MODULES, "pre": list(pre)}
    try:
        p = subprocess.run([sys.executable, "-S", "-c", WORKER_CODE], input=json.dumps(job), text=True,
                           capture_output=True, env=env, timeout=timeout, cwd="/")
    except subprocess.TimeoutExpired as e:
        raise core.HarnessError("C20 worker timed out") from e
    if p.returncode != 0 or not p.stdout.strip():
        return {"ok": False, "failed_stmt": "interpreter", "exc": ["ProcessError", p.stderr[-400:]], "tb": ""}
    return json.loads(p.stdout)


_REF = None


def reference():
    global _REF
    if _REF is None:
        _REF = run_program(["import chartparse.chart"])
    return _REF


def check_program(ctx: Ctx, case) -> None:
    stmts = case["stmts"]
    r = run_program(stmts)
    first = stmts[0].split()[1] if stmts else ""
    if not r.get("ok"):
        failed = r.get("failed_stmt", "")
        sig = None
        if failed == stmts[0]:
            sig = "first-import-fails:" + first.replace("chartparse.", "")
        ctx.fail("import-succeeds", f"program {stmts}: statement {failed!r} raised "
                                    f"{r['exc'][0]}: {r['exc'][1]}", case, sig)
        ctx.note(stmts, nontrivial=first != "chartparse.chart")
        return
    ref = reference()
    if not ref.get("ok"):
        ctx.fail("import-succeeds", f"program ['import chartparse.chart'] (the reference order): statement "
                                    f"{ref.get('failed_stmt')!r} raised {ref['exc'][0]}: {ref['exc'][1]}",
                 {"stmts": ["import chartparse.chart"]})
        return
    if r["names"] != ref["names"]:
        ctx.fail("same-public-names", f"program {stmts}: public names differ from the reference order: "
                                      f"{diff_paths(ref['names'], r['names'])}", case)
    elif r["partition"] != ref["partition"]:
        a = {json.dumps(x) for x in ref["partition"]}
        b = {json.dumps(x) for x in r["partition"]}
        ctx.fail("same-objects", f"program {stmts}: names are bound to different objects than in the "
                                 f"reference order: only-reference {sorted(a - b)[:3]}, only-program "
                                 f"{sorted(b - a)[:3]}", case)
    # what each statement hands to the client must not depend on the order either: the same statements
    # executed after the whole package was imported (chart first) must bind the same objects
    if any(st_.startswith("from ") for st_ in stmts):
        late = run_program(stmts, pre=["chart"] + [m for m in MODULES if m != "chart"])
        if not late.get("ok"):
            ctx.fail("import-succeeds", f"program {stmts} after importing the whole package: statement "
                                        f"{late.get('failed_stmt')!r} raised {late['exc'][0]}: {late['exc'][1]}", case)
        elif late.get("bound") != r.get("bound"):
            ctx.fail("same-objects", f"program {stmts}: the statements bind {r.get('bound')} when run first but "
                                     f"{late.get('bound')} after the package was imported", case)
    ctx.note(stmts, nontrivial=first != "chartparse.chart",
             classes=[f"len_{min(len(stmts), 12)}"],
             sample={"stmts": stmts, "public_names": len(r["names"]), "identity_classes": len(r["partition"])})


def exhaustive_programs():
    progs = [[f"import chartparse.{m}"] for m in MODULES]
    progs += [[f"import chartparse.{a}", f"import chartparse.{b}"] for a, b in itertools.permutations(MODULES, 2)]
    # the other client spelling: 'from chartparse import <module>' (all first imports, all ordered pairs)
    progs += [[f"from chartparse import {m}"] for m in MODULES]
    progs += [[f"from chartparse import {a}", f"from chartparse import {b}"] for a, b in itertools.permutations(MODULES, 2)]
    progs += [[f"import chartparse.{a}", f"from chartparse import {b}"] for a, b in itertools.permutations(MODULES, 2)
              if (MODULES.index(a) + MODULES.index(b)) % 4 == 0]
    # star imports (what a module exports through __all__ / its public names must exist)
    progs += [[f"from chartparse.{m} import *"] for m in MODULES]
    progs += [[f"from chartparse.{a} import *", f"from chartparse.{b} import *"]
              for a, b in itertools.permutations(MODULES, 2) if (MODULES.index(a) * 5 + MODULES.index(b)) % 6 == 0]
    progs += [
        ["from chartparse.chart import Chart", "from chartparse.instrument import Instrument, Difficulty"],
        ["from chartparse.instrument import Instrument, Difficulty", "from chartparse.chart import Chart"],
        ["from chartparse.instrument import InstrumentTrack"], ["from chartparse.instrument import NoteEvent"],
        ["from chartparse.sync import SyncTrack"], ["from chartparse.sync import BPMEvents, BPMEvent"],
        ["from chartparse.track import build_events_from_data"],
        ["from chartparse.track import parse_data_from_chart_lines", "from chartparse.sync import AnchorEvent"],
        ["from chartparse.globalevents import GlobalEventsTrack, LyricEvent"],
        ["from chartparse.metadata import Metadata", "from chartparse.sync import TimeSignatureEvent"],
        ["from chartparse.event import Event", "from chartparse.instrument import StarPowerEvent"],
        ["from chartparse.tick import NoteDuration", "from chartparse.instrument import Note"],
        ["import chartparse", "import chartparse.sync"],
        ["from chartparse import instrument"], ["from chartparse import sync, track"],
        ["import chartparse.sync as s", "import chartparse.instrument as i", "import chartparse.track as t"],
    ]
    return progs


def drive_exhaustive(ctx: Ctx) -> None:
    for i, stmts in enumerate(exhaustive_programs()):
        if i % ctx.nshards != ctx.shard:
            continue
        case = {"stmts": stmts}
        ctx.current = case
        check_program(ctx, case)
    ctx.exhaustive["exhaustive"] = True


def strat_perms(ctx: Ctx):
    return st.builds(lambda perm, k: {"stmts": [f"import chartparse.{m}" for m in perm[:k]]},
                     st.permutations(MODULES), st.integers(3, 12))


PARTS: list[Part] = [
    custom_part("exhaustive", drive_exhaustive, check_program, {"quick": 12, "thorough": 16}),
    hyp_part("permutations", strat_perms, check_program, {"quick": 12, "thorough": 250},
             {"quick": 4, "thorough": 16}, shrink=False),
]
