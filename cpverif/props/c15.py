"""C15 — untrustworthy tempo data is rejected loudly, never turned into times."""
from __future__ import annotations

from datetime import timedelta

from hypothesis import strategies as st

from cpverif import spec as S
from cpverif import strategies as G
from cpverif.core import Ctx, Part, enum_part, h64, hyp_part
from cpverif.lib import L
from cpverif.model import TempoModel, td_us

LEVEL = "fault_enumeration"
RULE = (
    "Fault enumeration over Hypothesis-generated well-formed charts (tempo maps of 1..12 tempo events "
    "quick, ..40 thorough, with time-signature, global, note, star-power and track events): for each "
    "chart EVERY single corruption of the sync data at EVERY position k (for maps of more than 64 tempo events: a fixed sample of positions) is applied: drop / shift the "
    "tick-0 tempo, drop / shift the tick-0 time signature, duplicate tempo k's tick, swap tempo lines "
    "k and j (all k, j adjacent + one drawn far pair), zero tempo ('B 0', 'B 000') at k, 'Resolution = "
    "0' / '00', empty sync body, zero tempo appended after every event; plus direct "
    "BPMEvents(resolution <= 0) and negative-tick queries; part fresh runs ten fixed untrustworthy charts as "
    "the very first parse of a fresh interpreter (and after one other chart). Oracle: outcome must be ValueError; zero "
    "tempo not last => parse raises; last => parse raises iff some event or sustain end has tick >= "
    "its tick, otherwise the chart is returned, every query at or after that tick raises ValueError "
    "and earlier queries still agree with the uncorrupted chart. Non-trivial iff the corruption sits "
    "at k >= 1 in a map of >= 3 tempo events, or a zero tempo is in last position; distinct = "
    "distinct (chart, corruption kind, position)."
)
ASSUMPTIONS = [
    "only the corruptions listed in the property are asserted to raise; 'Resolution = -5' (not a digit "
    "string, MissingRequiredField) is outside the list",
    "a corruption that puts an IN-ORDER tempo line at a time beyond the platform timedelta range (10^12 ticks "
    "under 0.001 BPM) makes the parser fail with OverflowError before it reaches the offending line; that is "
    "the representability limit (cf. C18's bound), decided with exact arithmetic and counted, not judged",
]


def strat_cases(ctx: Ctx):
    return st.builds(
        lambda c, far, shift: {"spec": c["spec"], "res": c["res"], "tempo": c["tempo"],
                               "max_tick": c["max_tick"], "far": far, "shift": shift},
        G.chart_specs(max_segments=ctx.pick(12, 40), max_tracks=2, max_notes=6, max_events=4,
                      max_ts=3, max_anchors=1),
        st.tuples(st.integers(0, 40), st.integers(0, 40)), st.integers(1, 50))


def _render_with_sync(spec, sync_lines, res_text=None) -> str:
    secs = []
    for name, body in S.sections_of(spec):
        if name == "SyncTrack":
            body = sync_lines
        if name == "Song" and res_text is not None:
            body = [f"Resolution = {res_text}"]
        secs.append((name, body))
    return S.render_sections(secs)


_TIMEDELTA_MAX_S = 86400 * 999999999


def _beyond_timedelta_range(res, sync_lines) -> bool:
    """True iff the tempo lines, read in FILE order, put some tempo line that follows its predecessor in
    tick order at a time no timedelta can hold (exact rational arithmetic)."""
    from fractions import Fraction
    elapsed = Fraction(0)
    prev = None
    for ln in sync_lines:
        parts = ln.split()
        if len(parts) != 4 or parts[1] != "=" or parts[2] != "B":
            continue
        try:
            tick, n = int(parts[0]), int(parts[3])
        except ValueError:
            continue
        if prev is not None:
            pt, pn = prev
            if tick <= pt or pn <= 0 or not res or int(res) <= 0:
                return False            # the parser meets the untrustworthy line first
            elapsed += Fraction((tick - pt) * 60000, pn * int(res))
            if elapsed > _TIMEDELTA_MAX_S:
                return True
        prev = (tick, n)
    return False


def _max_event_tick(spec) -> int:
    m = 0
    for it in spec["sync"]:
        if it[1] != "B":
            m = max(m, it[0])
    for e in spec["events"]:
        m = max(m, e[0])
    for items in spec["tracks"].values():
        for it in items:
            m = max(m, it[0] + (it[3] if it[1] in ("N", "S") else 0))
    return m


def _governed_by_last(spec, t_last: int) -> bool:
    """Does any event that needs a time (TS/global/note start or sustain end/SP/track event) have a
    tick >= t_last?  (star-power phrases are timed at their start tick only)"""
    for it in spec["sync"]:
        if it[1] == "TS" and it[0] >= t_last:
            return True
    if any(e[0] >= t_last for e in spec["events"]):
        return True
    for items in spec["tracks"].values():
        for it in items:
            if it[0] >= t_last:
                return True
            if it[1] == "N" and it[2] in (0, 1, 2, 3, 4, 7) and it[0] + it[3] >= t_last:
                return True
    return False


def check_case(ctx: Ctx, case) -> None:
    spec = case["spec"]
    tempo = case["tempo"]
    nb = len(tempo)
    base_text = S.render(spec)
    try:
        base = L.parse(base_text)
    except Exception as e:  # noqa: BLE001
        ctx.fail("chart-parses", f"well-formed chart rejected: {type(e).__name__}: {e}", {"text": base_text})
        return
    sync = [list(it) for it in spec["sync"]]
    b_idx = [i for i, it in enumerate(sync) if it[1] == "B"]
    ts0 = next(i for i, it in enumerate(sync) if it[1] == "TS" and it[0] == 0)
    lines = [S.sync_line(it) for it in sync]
    faults = []  # (kind, position, sync_lines, res_text, expectation)

    def variant(mut):
        s2 = [list(it) for it in sync]
        out = mut(s2)
        return [S.sync_line(it) if not isinstance(it, str) else it for it in (out if out is not None else s2)]

    faults.append(("drop_first_tempo", 0, variant(lambda s: s.__delitem__(b_idx[0])), None, "raise"))
    sh = case["shift"]
    faults.append(("shift_first_tempo", 0, variant(lambda s: s[b_idx[0]].__setitem__(0, sh)), None, "raise"))
    faults.append(("drop_first_ts", 0, variant(lambda s: s.__delitem__(ts0)), None, "raise"))
    faults.append(("shift_first_ts", 0, variant(lambda s: s[ts0].__setitem__(0, sh)), None, "raise"))
    # every position for ordinary maps; for LONG maps (65..300 tempo events) the first and last eight, the
    # neighbourhoods of 64 / 128 / 256 and every 16th position (each fault costs a whole parse)
    positions = range(nb) if nb <= 64 else sorted(
        {k for k in list(range(8)) + list(range(nb - 8, nb)) + list(range(60, 69)) + list(range(124, 133))
         + list(range(252, 261)) + list(range(0, nb, 16)) if 0 <= k < nb})
    for k in positions:
        i = b_idx[k]
        faults.append(("duplicate_tempo_tick", k,
                       variant(lambda s, i=i: s.insert(i + 1, [s[i][0], "B", 100000])), None, "raise"))
        if k + 1 < nb:
            j = b_idx[k + 1]
            faults.append(("swap_tempo_lines", k,
                           variant(lambda s, i=i, j=j: (s.__setitem__(i, sync[j]), s.__setitem__(j, sync[i]))
                                   and None), None, "raise"))
        for ztxt in ("0", "000"):
            exp = "raise" if k < nb - 1 else ("raise" if _governed_by_last(spec, tempo[k][0]) else "zero_last_ok")
            faults.append((f"zero_tempo_{ztxt}", k, variant(lambda s, i=i, z=ztxt: s[i].__setitem__(2, z)),
                           None, exp))
    fk, fj = case["far"][0] % nb, case["far"][1] % nb
    if abs(fk - fj) > 1:
        i, j = b_idx[fk], b_idx[fj]
        faults.append(("swap_tempo_lines_far", min(fk, fj),
                       variant(lambda s: (s.__setitem__(i, sync[j]), s.__setitem__(j, sync[i])) and None),
                       None, "raise"))
    faults.append(("resolution_0", 0, lines, "0", "raise"))
    faults.append(("resolution_00", 0, lines, "00", "raise"))
    faults.append(("empty_sync", 0, [], None, "raise"))
    m_tick = max(_max_event_tick(spec), tempo[-1][0]) + 1
    faults.append(("zero_tempo_after_everything", nb, lines + [f"{m_tick} = B 0"], None, "zero_last_ok"))

    for kind, k, sync_lines, res_text, expect in faults:
        text = _render_with_sync(spec, sync_lines, res_text)
        rc = {"base_text": base_text, "fault": kind, "position": k, "corrupted_text": text}
        ctx.evaluations += 1
        ctx.classes[f"fault_{kind.split('_0')[0] if kind.startswith('zero_tempo_0') else kind}"] += 1
        nontrivial = (k >= 1 and nb >= 3) or expect == "zero_last_ok" or (kind.startswith("zero") and k == nb - 1)
        if nontrivial:
            ctx.nontrivial.add(h64([base_text, kind, k]))
        try:
            ch = L.parse(text)
        except ValueError:
            if expect == "zero_last_ok":
                ctx.fail("zero-last-ungoverned-parses",
                         f"{kind} at position {k}: nothing is governed by the zero tempo but the parse "
                         f"raised ValueError", rc)
            ctx.classes["outcome_ValueError"] += 1
            continue
        except OverflowError as e:
            if _beyond_timedelta_range(spec["res"], sync_lines):
                # moving a tempo line can put a stretch of 10^12 ticks under a very slow tempo: the time of an
                # IN-ORDER tempo line then exceeds what a timedelta can hold before the parser reaches the
                # offending line.  That is the representability limit the properties acknowledge (C18: "so
                # that no time exceeds the platform timedelta range"), not a verdict on trust: not judged.
                ctx.classes["outcome_beyond_timedelta_range_not_judged"] += 1
                continue
            ctx.fail("rejected-with-ValueError", f"{kind} at position {k}: raised {type(e).__name__}: {e} "
                                                 f"instead of ValueError", rc)
            continue
        except Exception as e:  # noqa: BLE001
            ctx.fail("rejected-with-ValueError", f"{kind} at position {k}: raised {type(e).__name__}: {e} "
                                                 f"instead of ValueError", rc)
            continue
        if expect == "raise":
            ctx.fail("corruption-accepted", f"{kind} at position {k}: the corrupted chart was accepted "
                                            f"(tempo ticks {[e.tick for e in ch.sync_track.bpm_events][:8]})",
                     rc)
            continue
        # zero tempo in last position, nothing governed: queries at/after raise, earlier ones unchanged
        ctx.classes["outcome_zero_last_chart"] += 1
        bpm = ch.sync_track.bpm_events
        zt = bpm[len(bpm) - 1].tick
        for q in (zt, zt + 1, zt + 1000):
            for name, fn in (("no_optimize", bpm.timestamp_at_tick_no_optimize_return),
                             ("at_tick", lambda x: bpm.timestamp_at_tick(x)[0])):
                try:
                    r = fn(q)
                except ValueError:
                    continue
                except Exception as e:  # noqa: BLE001
                    ctx.fail("zero-tempo-query", f"query {name}({q}) governed by a zero tempo raised "
                                                 f"{type(e).__name__}: {e}", rc)
                    continue
                ctx.fail("zero-tempo-query", f"query {name}({q}) is governed by a tempo of zero but "
                                             f"returned {r}", rc)
        bb = base.sync_track.bpm_events
        for q in {0, max(0, zt - 1), zt // 2}:
            if q >= zt:
                continue
            try:
                a = bpm.timestamp_at_tick_no_optimize_return(q)
            except Exception as e:  # noqa: BLE001
                ctx.fail("earlier-queries-unchanged", f"query({q}) before the zero tempo raised "
                                                      f"{type(e).__name__}: {e}", rc)
                continue
            # the base map has the same tempo events before zt (zero tempo replaced the last or was appended)
            if kind == "zero_tempo_after_everything" or q < case["tempo"][-1][0]:
                if a != bb.timestamp_at_tick_no_optimize_return(q):
                    ctx.fail("earlier-queries-unchanged", f"query({q}) changed: {a}", rc)
    # direct checks
    bpm = base.sync_track.bpm_events
    for neg in (-1, -5, -10 ** 9):
        for name, fn in (("no_optimize", bpm.timestamp_at_tick_no_optimize_return),
                         ("at_tick", lambda x: bpm.timestamp_at_tick(x)[0])):
            ctx.evaluations += 1
            try:
                r = fn(neg)
            except ValueError:
                continue
            except Exception as e:  # noqa: BLE001
                ctx.fail("negative-tick", f"{name}({neg}) raised {type(e).__name__}: {e}",
                         {"base_text": base_text})
                continue
            ctx.fail("negative-tick", f"{name}({neg}) returned {r}", {"base_text": base_text})
    for hint in range(0, min(len(bpm), 6)):
        ctx.evaluations += 1
        try:
            r = bpm.timestamp_at_tick(-1 - hint, start_iteration_index=hint)
        except ValueError:
            continue
        except Exception as e:  # noqa: BLE001
            ctx.fail("negative-tick", f"timestamp_at_tick({-1 - hint}, start_iteration_index={hint}) raised "
                                      f"{type(e).__name__}: {e}", {"base_text": base_text})
            continue
        ctx.fail("negative-tick", f"timestamp_at_tick({-1 - hint}, start_iteration_index={hint}) returned {r}",
                 {"base_text": base_text})
    for r in (0, -1, -192):
        ctx.evaluations += 1
        try:
            L.BPMEvents(events=list(bpm.events), resolution=r)
        except ValueError:
            continue
        except Exception as e:  # noqa: BLE001
            ctx.fail("nonpositive-resolution", f"BPMEvents(resolution={r}) raised {type(e).__name__}: {e}",
                     {"base_text": base_text})
            continue
        ctx.fail("nonpositive-resolution", f"BPMEvents(resolution={r}) was accepted",
                 {"base_text": base_text})
    # direct construction of the tempo containers from untrustworthy parts
    st_ = base.sync_track
    direct = [("BPMEvents(events=[])", lambda: L.BPMEvents(events=[], resolution=case["res"])),
              ("SyncTrack(time_signature_events=[])",
               lambda: L.SyncTrack(time_signature_events=[], bpm_events=bpm,
                                   anchor_events=list(st_.anchor_events)))]
    if nb >= 2:
        direct.append(("BPMEvents(first tempo not at tick 0)",
                       lambda: L.BPMEvents(events=list(bpm.events)[1:], resolution=case["res"])))
    later_ts = [e for e in st_.time_signature_events if e.tick > 0]
    if later_ts:
        direct.append(("SyncTrack(first time signature not at tick 0)",
                       lambda: L.SyncTrack(time_signature_events=later_ts, bpm_events=bpm,
                                           anchor_events=list(st_.anchor_events))))
    for name, fn in direct:
        ctx.evaluations += 1
        ctx.classes["direct_construction"] += 1
        try:
            fn()
        except ValueError:
            continue
        except Exception as e:  # noqa: BLE001
            ctx.fail("direct-construction", f"{name} raised {type(e).__name__}: {e} instead of ValueError",
                     {"base_text": base_text})
            continue
        ctx.fail("direct-construction", f"{name} was accepted", {"base_text": base_text})
    ctx.classes[f"tempo_events_{min(nb, 13)}"] += 1
    if len(ctx.samples) < ctx.max_samples and nb >= 3:
        ctx.samples.append({"tempo": tempo[:6], "faults": [f"{f[0]}@{f[1]}" for f in faults][:14],
                            "sync_example": faults[5][2][:6] if len(faults) > 5 else None})


def fresh_cases(ctx: Ctx):
    """Untrustworthy charts as the FIRST thing a fresh interpreter ever parses (no earlier, valid chart has
    warmed anything up)."""
    def chart(res, sync, body=("  0 = N 0 0", "  96 = N 1 0")):
        return ("[Song]\n{\n  Resolution = %s\n}\n[SyncTrack]\n{\n%s}\n[Events]\n{\n  0 = E \"section a\"\n}\n"
                "[ExpertSingle]\n{\n%s}\n") % (res, "".join(f"  {x}\n" for x in sync), "".join(b + "\n" for b in body))
    texts = {
        "zero_only_tempo": chart(192, ["0 = TS 4", "0 = B 0"]),
        "zero_only_tempo_000": chart(192, ["0 = TS 4", "0 = B 000"]),
        "zero_opening_tempo": chart(192, ["0 = TS 4", "0 = B 0", "384 = B 120000"]),
        "zero_second_tempo": chart(480, ["0 = TS 4", "0 = B 120000", "48 = B 0"]),
        "resolution_0": chart(0, ["0 = TS 4", "0 = B 120000"]),
        "no_tempo_at_0": chart(192, ["0 = TS 4", "5 = B 120000"]),
        "no_ts_at_0": chart(192, ["3 = TS 4", "0 = B 120000"]),
        "duplicate_tempo_tick": chart(192, ["0 = TS 4", "0 = B 120000", "0 = B 90000"]),
        "decreasing_tempo_ticks": chart(192, ["0 = TS 4", "0 = B 120000", "96 = B 90000", "48 = B 60000"]),
        "empty_sync": chart(192, []),
    }
    for name, text in texts.items():
        yield {"fault": name, "text": text}
    # ... and the same after ONE other chart (valid or itself untrustworthy)
    order = list(texts)
    for i, name in enumerate(order):
        yield {"fault": name, "text": texts[name], "before": texts[order[(i * 3 + 1) % len(order)]]}


def check_fresh(ctx: Ctx, case) -> None:
    from cpverif.props.c17 import run_job
    texts = [case["text"]] + ([case["before"]] if case.get("before") else [])
    ops = ([["parse", 1, None]] if case.get("before") else []) + [["parse", 0, None]]
    res = run_job(texts, ops)
    if "crash" in res:
        ctx.fail("fresh-interpreter", f"{case['fault']}: the interpreter died: {res['crash'][-300:]}", case)
        return
    r = res["results"][-1]
    if r.get("ok"):
        ctx.fail("corruption-accepted", f"{case['fault']} as the first chart of a fresh interpreter"
                                        f"{' (after one other chart)' if case.get('before') else ''}: the chart was "
                                        f"accepted", case)
    elif r["exc"][0] != "ValueError":
        ctx.fail("rejected-with-ValueError", f"{case['fault']} in a fresh interpreter raised {r['exc'][0]}: "
                                             f"{r['exc'][1][:200]} instead of ValueError", case)
    ctx.note([case["fault"], bool(case.get("before"))], nontrivial=True, classes=["fresh_interpreter"],
             sample={"fault": case["fault"], "after_another_chart": bool(case.get("before"))})


PARTS: list[Part] = [
    enum_part("fresh", fresh_cases, check_fresh, {"quick": 4, "thorough": 4}),
    hyp_part("faults", strat_cases, check_case, {"quick": 150, "thorough": 4500},
             {"quick": 8, "thorough": 16}),
]
