"""C11 — lookup hints are invisible; timestamps are never silently misplaced."""
from __future__ import annotations

from hypothesis import strategies as st
from hypothesis.stateful import RuleBasedStateMachine, initialize, rule

from cpverif import spec as S
from cpverif import strategies as G
from cpverif.core import Ctx, Part, custom_part, hyp_part, run_machine
from cpverif.lib import L
from cpverif.model import TempoModel, td_us

RULE = (
    "part hints: Hypothesis tempo maps x interesting ticks (on/next to/inside/past tempo changes) x ALL "
    "hints 0..len (complete per map); oracle g = brute-force governing index: h <= g must return "
    "(un-hinted timestamp, g), h > g (including h = len) must raise ValueError. part orders: whole "
    "charts whose section bodies are kept sorted, partially sorted (k transpositions) or fully "
    "shuffled by a Hypothesis-drawn permutation; oracle: sorted bodies must parse; any body either "
    "raises ValueError or every stored timestamp (all kinds, note ends included) equals the un-hinted "
    "query for its tick. part history: rule-based state machine appending events (tick >= previous, "
    "equal, or arbitrary) to the sync/events/instrument sections and re-parsing after every step with "
    "the same oracle. Non-trivial iff >= 3 tempo events and (a hint > 0 was exercised, or a body "
    "contains an event whose tick precedes its predecessor's across a tempo change); distinct = "
    "distinct case."
    " part dense: sorted charts with a text, a section and a lyric event, a note, a phrase and a track event on EVERY (step-th) tick of a window of 60..1200 ticks around / behind the last tempo changes, two thirds of them over round 'musical' tempo maps where many ticks have an exact time of k + 1/2 microseconds; every stored time equals the un-hinted query."
)
ASSUMPTIONS = [
    "negative hints are outside the quantifier (0..len) and not generated",
    "anchor events are excluded from the equality (their time is literal, see C08)",
]


# ------------------------------------------------------------------------------------------------
@st.composite
def _hint_cases(draw, max_segments):
    tmap = draw(G.tempo_maps(max_segments=max_segments, min_segments=1))
    tm = TempoModel(tmap["res"], tmap["tempo"])
    max_tick = max(tm.max_tick_within(G.TIME_LIMIT_S) - 1, tm.ticks[-1])
    cands = G.interesting_ticks(tm, max_tick)
    if len(cands) > 30:
        idx = draw(st.lists(st.integers(0, len(cands) - 1), min_size=20, max_size=30))
        cands = sorted({cands[i] for i in idx})
    extra = draw(st.lists(G.tick_strategy(tm, max_tick), max_size=5))
    return {"res": tmap["res"], "tempo": tmap["tempo"], "ticks": sorted(set(cands) | set(extra))}


def strat_hints(ctx: Ctx):
    return _hint_cases(ctx.pick(16, 48))


def _bpm_events(ctx, case):
    spec = {"res": case["res"], "sync": [[0, "TS", 4]] + [[t, "B", n] for t, n in case["tempo"]],
            "events": [], "tracks": {}}
    try:
        return L.parse(S.render(spec)).sync_track.bpm_events
    except Exception as e:  # noqa: BLE001
        ctx.fail("chart-parses", f"well-formed tempo map rejected: {type(e).__name__}: {e}", case)
        return None


def check_hints(ctx: Ctx, case) -> None:
    tm = TempoModel(case["res"], case["tempo"])
    bpm = _bpm_events(ctx, case)
    if bpm is None:
        return
    n = len(tm.ticks)
    if len(bpm) != n:
        ctx.fail("tempo-events", f"{len(bpm)} tempo events parsed, {n} written", case)
    n_eval = 0
    # a second chart with another tempo map is alive and answers queries in between (no shared state)
    # (every tempo a little faster, so every tick stays inside the time domain)
    shadow = _bpm_events(ctx, {"res": case["res"], "tempo": [[a, b + 1 + b // 3] for a, b in case["tempo"]]})
    # ticks are visited in zigzag order (largest, smallest, second largest, ...): consecutive lookups
    # then lie in far-apart tempo regions, in both directions
    srt = sorted(case["ticks"])
    zigzag = [srt[-(k // 2) - 1] if k % 2 == 0 else srt[k // 2] for k in range(len(srt))]
    for ti, t in enumerate(zigzag if len(srt) % 2 else srt):
        if shadow is not None and ti % 2:
            try:
                shadow.timestamp_at_tick(t)
            except Exception:  # noqa: BLE001  (the shadow is not under test)
                pass
        g = tm.governing(t)
        # hints in ascending, descending or interleaved order, and the un-hinted reference lookups either
        # before or AFTER the hinted ones (lookups must not remember each other: a rejected lookup is followed
        # by accepted ones for the same tick and vice versa, sometimes with no un-hinted lookup in between)
        hint_order = list(range(0, n + 1))
        if ti % 3 == 1:
            hint_order.reverse()
        elif ti % 3 == 2:
            hint_order = hint_order[1::2] + hint_order[0::2][::-1]
        base_first = ti % 4 < 2

        def base_lookup():
            try:
                base_ts_, base_idx_ = bpm.timestamp_at_tick(t)
                plain_ = bpm.timestamp_at_tick_no_optimize_return(t)
            except Exception as e:  # noqa: BLE001
                ctx.fail("unhinted-answers", f"un-hinted query({t}) raised {type(e).__name__}: {e}", case)
                return None
            if base_idx_ != g:
                ctx.fail("governing-index", f"tick {t}: returned index {base_idx_}, last tempo event at or "
                                            f"before the tick is {g}", case)
            if plain_ != base_ts_:
                ctx.fail("queries-agree", f"tick {t}: {plain_} != {base_ts_}", case)
            return base_ts_

        base_ts = base_lookup() if base_first else None
        if base_first and base_ts is None:
            continue
        outcomes = []
        for h in hint_order:
            n_eval += 1
            if shadow is not None and (ti + h) % 5 == 0:
                try:
                    shadow.timestamp_at_tick(t, start_iteration_index=min(h, len(shadow) - 1))
                except Exception:  # noqa: BLE001
                    pass
            try:
                got = bpm.timestamp_at_tick(t, start_iteration_index=h)
            except ValueError:
                outcomes.append((h, None))
                continue
            except Exception as e:  # noqa: BLE001
                ctx.fail("hint-error-type", f"tick {t}, hint {h}: {type(e).__name__}: {e} (only "
                                            f"ValueError is documented)", case)
                continue
            outcomes.append((h, got))
        if not base_first:
            base_ts = base_lookup()
            if base_ts is None:
                continue
        for h, got in outcomes:
            if got is None:
                if h <= g:
                    ctx.fail("valid-hint-rejected", f"tick {t}, hint {h} <= governing {g}: ValueError "
                                                    f"(hints tried in order {hint_order[:12]})", case)
                ctx.classes["hint>g" if h < n else "hint=len"] += 1
            elif h > g:
                ctx.fail("bad-hint-accepted",
                         f"tick {t}, hint {h} lies beyond governing index {g} but the query returned "
                         f"{got[0]} (index {got[1]}) instead of raising ValueError (hints tried in order "
                         f"{hint_order[:12]})", case)
            elif got[0] != base_ts or got[1] != g:
                ctx.fail("hint-visible", f"tick {t}, hint {h}: ({got[0]}, {got[1]}) != un-hinted "
                                         f"({base_ts}, {g}) (hints tried in order {hint_order[:12]})", case)
            else:
                ctx.classes["hint<g" if h < g else "hint=g"] += 1
    ctx.note(case, nontrivial=n >= 3, classes=[f"tempo_events_{min(n, 10)}"],
             sample={"res": case["res"], "tempo": case["tempo"][:6], "ticks": case["ticks"][:10],
                     "hints": f"0..{n}"})
    ctx.evaluations += n_eval - 1


# ------------------------------------------------------------------------------------------------
def _verify_chart(ctx: Ctx, chart, rc, tm: TempoModel | None = None) -> int:
    """Every tempo-mapped event's stored time equals the un-hinted query.  Returns #events checked."""
    bpm = chart.sync_track.bpm_events
    n = 0

    def chk(kind, tick, ts):
        nonlocal n
        n += 1
        try:
            want = bpm.timestamp_at_tick_no_optimize_return(tick)
        except Exception as e:  # noqa: BLE001
            ctx.fail("unhinted-answers", f"query({tick}) raised {type(e).__name__}: {e}", rc)
            return
        if ts != want:
            ctx.fail("silently-misplaced",
                     f"{kind} at tick {tick} stores {td_us(ts)} us but the un-hinted query gives "
                     f"{td_us(want)} us", rc)

    for e in bpm:
        chk("bpm", e.tick, e.timestamp)
    for e in chart.sync_track.time_signature_events:
        chk("ts", e.tick, e.timestamp)
    g = chart.global_events_track
    for name, lst in (("text", g.text_events), ("section", g.section_events), ("lyric", g.lyric_events)):
        for e in lst:
            chk(name, e.tick, e.timestamp)
    for inner in chart.instrument_tracks.values():
        for tr in inner.values():
            for e in tr.note_events:
                chk("note", e.tick, e.timestamp)
                chk("note_end", e.end_tick, e.end_timestamp)
            for e in tr.star_power_events:
                chk("sp", e.tick, e.timestamp)
            for e in tr.track_events:
                chk("tev", e.tick, e.timestamp)
    return n


def _apply_perm(lines, perm):
    return [lines[i] for i in perm]


@st.composite
def _order_cases(draw, ctx):
    c = draw(G.chart_specs(max_segments=ctx.pick(8, 16), max_tracks=2, min_tracks=1,
                           max_notes=ctx.pick(10, 20), max_events=6, max_ts=4, min_notes=2,
                           with_layout=False))
    secs = S.sections_of(c["spec"])
    mode = draw(st.sampled_from(["sorted", "partial", "partial", "shuffled", "shuffled"]))
    shuffle_sync = draw(st.integers(0, 4)) == 0
    perms = {}
    for name, body in secs:
        if name == "Song" or len(body) < 2 or mode == "sorted":
            continue
        if name == "SyncTrack" and not shuffle_sync:
            continue
        n = len(body)
        if mode == "shuffled":
            perms[name] = draw(st.permutations(list(range(n))))
        else:
            p = list(range(n))
            for _ in range(draw(st.integers(1, 3))):
                i = draw(st.integers(0, n - 1))
                j = draw(st.integers(0, n - 1))
                p[i], p[j] = p[j], p[i]
            perms[name] = p
    return {"res": c["res"], "tempo": c["tempo"], "spec": c["spec"], "perms": perms, "mode": mode}


def strat_orders(ctx: Ctx):
    return _order_cases(ctx)


def _tick_of(line: str) -> int:
    return int(line.strip().split(" ", 1)[0])


def check_orders(ctx: Ctx, case) -> None:
    secs = S.sections_of(case["spec"])
    out = []
    backwards_across_change = False
    tm = TempoModel(case["res"], case["tempo"])
    identity = True
    for name, body in secs:
        perm = case["perms"].get(name)
        if perm is not None:
            body = _apply_perm(body, perm)
            if list(perm) != sorted(perm):
                identity = False
            if name != "Song":
                tk = [_tick_of(b) for b in body]
                for a, b in zip(tk, tk[1:]):
                    if b < a and tm.governing_fast(b) != tm.governing_fast(a):
                        backwards_across_change = True
        out.append((name, body))
    text = S.render_sections(out)
    rc = {"res": case["res"], "tempo": case["tempo"], "text": text}
    try:
        chart = L.parse(text)
    except ValueError as e:
        if identity:
            ctx.fail("sorted-parses", f"sorted well-formed chart rejected: ValueError: {e}", rc)
        ctx.note(case, nontrivial=len(tm.ticks) >= 3 and backwards_across_change,
                 classes=[f"mode_{case['mode']}", "outcome_ValueError",
                          "ValueError_backwards_across_change" if backwards_across_change
                          else "ValueError_other"])
        return
    except OverflowError as e:
        # A reordered [SyncTrack] can put a tempo line that FOLLOWS its predecessor in tick order at a time no
        # timedelta can hold (a long fast stretch now read under a 0.001 BPM tempo).  Whether that time can be
        # represented is outside this property (as in C15 / C18: times within the timedelta range); decided
        # with exact arithmetic, counted, not judged.  Any other OverflowError is a violation.
        from cpverif.props.c15 import _beyond_timedelta_range
        sync_body = next((b for n_, b in out if n_ == "SyncTrack"), [])
        if not identity and _beyond_timedelta_range(case["res"], sync_body):
            ctx.classes["outcome_beyond_timedelta_range_not_judged"] += 1
            ctx.note(case, classes=[f"mode_{case['mode']}"])
            return
        ctx.fail("order-error-type", f"reordered body raised {type(e).__name__}: {e} (the property "
                                     f"allows ValueError only)", rc)
        return
    except Exception as e:  # noqa: BLE001
        ctx.fail("order-error-type", f"reordered body raised {type(e).__name__}: {e} (the property "
                                     f"allows ValueError only)", rc)
        return
    n = _verify_chart(ctx, chart, rc, tm)
    ctx.note(case, nontrivial=len(tm.ticks) >= 3 and (backwards_across_change or
                                                     (identity and n > len(tm.ticks) + 1)),
             classes=[f"mode_{case['mode']}", "outcome_equal",
                      "backwards_across_change" if backwards_across_change else "no_backwards"],
             sample={"res": case["res"], "tempo": case["tempo"][:5], "mode": case["mode"],
                     "perms": {k: list(v)[:12] for k, v in case["perms"].items()}, "events": n})


# ------------------------------------------------------------------------------------------------
def check_history(ctx: Ctx, case) -> None:
    """case: {"res", "tempo", "ops": [[section, line], ...]} — replay of a machine history: the
    sections are rebuilt op by op and parsed after every step."""
    tm = TempoModel(case["res"], case["tempo"])
    bodies = {"SyncTrack": ["0 = TS 4"] + [f"{t} = B {n}" for t, n in case["tempo"]],
              "Events": [], "ExpertSingle": []}
    steps = 0
    backwards = False
    last_tick = {}
    for sec, line in case["ops"]:
        bodies[sec].append(line)
        tk = _tick_of(line)
        if sec in last_tick and tk < last_tick[sec] and \
                tm.governing_fast(tk) != tm.governing_fast(last_tick[sec]):
            backwards = True
        last_tick[sec] = tk
        text = S.render_sections([("Song", [f"Resolution = {case['res']}"]),
                                  ("SyncTrack", bodies["SyncTrack"]), ("Events", bodies["Events"]),
                                  ("ExpertSingle", bodies["ExpertSingle"])])
        rc = {"res": case["res"], "tempo": case["tempo"], "ops": case["ops"][:steps + 1]}
        steps += 1
        try:
            chart = L.parse(text)
        except ValueError:
            ctx.classes["step_ValueError"] += 1
            continue
        except Exception as e:  # noqa: BLE001
            ctx.fail("order-error-type", f"history step raised {type(e).__name__}: {e}", rc)
            continue
        _verify_chart(ctx, chart, rc, tm)
        ctx.classes["step_equal"] += 1
    ctx.note(case, nontrivial=len(tm.ticks) >= 3 and backwards and steps >= 3,
             classes=[f"steps_{min(steps, 12)}"],
             sample={"res": case["res"], "tempo": case["tempo"][:5], "ops": case["ops"][:10]})
    ctx.evaluations += max(0, steps - 1)


def drive_history(ctx: Ctx) -> None:
    n_examples = ctx.pick(60, 600)

    class HintHistory(RuleBasedStateMachine):
        def __init__(self):
            super().__init__()
            self.case = None
            self.cands = []
            self.max_tick = 0
            self.last = 0

        @initialize(tmap=G.tempo_maps(max_segments=8, min_segments=2))
        def setup(self, tmap):
            tm = TempoModel(tmap["res"], tmap["tempo"])
            self.max_tick = max(tm.max_tick_within(G.TIME_LIMIT_S) - 1, tm.ticks[-1])
            self.cands = G.interesting_ticks(tm, self.max_tick)
            self.case = {"res": tmap["res"], "tempo": tmap["tempo"], "ops": []}

        def _tick(self, data, how):
            if how == 0:
                return self.last
            if how == 1:
                later = [c for c in self.cands if c >= self.last]
                return data.draw(st.sampled_from(later)) if later else self.last
            return data.draw(st.sampled_from(self.cands))

        @rule(data=st.data(), how=st.sampled_from([0, 1, 1, 1, 2]), kind=st.integers(0, 5),
              lane=st.integers(0, 4), ln=st.sampled_from([0, 0, 1, 50, 400]))
        def add(self, data, how, kind, lane, ln):
            t = self._tick(data, how)
            self.last = t
            ln = min(ln, max(0, self.max_tick - t))
            if kind == 0:
                op = ["SyncTrack", f"{t} = TS 3 2"]
            elif kind == 1:
                op = ["Events", f'{t} = E "section s{len(self.case["ops"])}"']
            elif kind == 2:
                op = ["Events", f'{t} = E "lyric l{len(self.case["ops"])}"']
            elif kind == 3:
                op = ["ExpertSingle", f"{t} = S 2 {ln}"]
            elif kind == 4:
                op = ["ExpertSingle", f"{t} = E solo"]
            else:
                op = ["ExpertSingle", f"{t} = N {lane} {ln}"]
            self.case["ops"].append(op)

        def teardown(self):
            if self.case is not None and self.case["ops"]:
                ctx.current = self.case
                check_history(ctx, self.case)

    run_machine(ctx, "history", HintHistory, n_examples, step_count=ctx.pick(12, 25))


# ------------------------------------------------------------------------------------------------
# dense runs: events of every kind on EVERY tick of a window around / behind tempo changes
# ------------------------------------------------------------------------------------------------
@st.composite
def _dense_cases(draw, ctx):
    if draw(st.integers(0, 2)) > 0:
        # "musical" maps: round tempos at the usual resolutions.  There the exact time of many ticks lies exactly
        # on a half microsecond (120 BPM at 192 ticks per beat: every tick = 3 mod 6), so that two computations
        # of one time that differ in nothing but the order of their floating-point operations round differently
        res = draw(st.sampled_from([192, 192, 480, 96, 960, 100, 120, 384]))
        vals = st.sampled_from([120000, 104000, 96000, 140000, 90000, 150000, 200000, 60000, 180000, 240000,
                                128000, 125000, 100000, 93750, 75000, 160000, 112000, 108000])
        tempo = [[0, draw(vals)]]
        t = 0
        for _ in range(draw(st.integers(0, 3))):
            t += draw(st.integers(1, 64)) * max(1, res // 4)
            tempo.append([t, draw(vals)])
        tmap = {"res": res, "tempo": tempo}
    else:
        tmap = draw(G.tempo_maps(max_segments=5, min_segments=1, allow_big=False))
    tm = TempoModel(tmap["res"], tmap["tempo"])
    max_tick = max(tm.max_tick_within(G.TIME_LIMIT_S) - 1, tm.ticks[-1])
    width = draw(st.sampled_from([60, 150, 150, ctx.pick(300, 1200)]))
    anchors = sorted(set(tm.ticks[-3:]) | {tm.ticks[0]})
    start = draw(st.sampled_from(anchors))
    lo = max(0, start - draw(st.sampled_from([0, 3, 20])))
    hi = min(max_tick, lo + width)
    step = draw(st.sampled_from([1, 1, 1, 2, 3]))
    return {"res": tmap["res"], "tempo": tmap["tempo"], "lo": lo, "hi": hi, "step": step,
            "sus": draw(st.sampled_from([0, 0, 1, 5]))}


def strat_dense(ctx: Ctx):
    return _dense_cases(ctx)


def check_dense(ctx: Ctx, case) -> None:
    """A sorted chart with a text, a section and a lyric event, a note, a phrase and a track event on every
    ``step``-th tick of [lo, hi] (time signatures on every seventh): every stored time equals the un-hinted query.
    Consecutive events of one kind, one tick apart, behind the last tempo change are what a per-kind shortcut in
    the event builders would get wrong for a few tick distances only."""
    lo, hi, step = case["lo"], case["hi"], case["step"]
    ticks = list(range(lo, hi + 1, step))
    sync = [[0, "TS", 4]] + [[t, "B", n] for t, n in case["tempo"]] + \
           [[t, "TS", 3 + (t % 5), 2] for t in ticks[::7] if t > 0]
    order = {"TS": 0, "B": 1}
    sync.sort(key=lambda it: (it[0], order[it[1]]))
    events = []
    items = []
    for i, t in enumerate(ticks):
        events += [[t, f"t{i}"], [t, f"section s{i}"], [t, f"lyric l{i}"]]
        items += [[t, "N", i % 5, min(case["sus"], max(0, hi - t))], [t, "S", 2, 1], [t, "E", f"w{i}"]]
    spec = {"res": case["res"], "sync": sync, "events": events, "tracks": {"ExpertSingle": items}}
    rc = dict(case)
    try:
        chart = L.parse(S.render(spec))
    except Exception as e:  # noqa: BLE001
        ctx.fail("sorted-parses", f"sorted well-formed chart rejected: {type(e).__name__}: {e}", rc)
        return
    tm = TempoModel(case["res"], case["tempo"])
    n = _verify_chart(ctx, chart, rc, tm)
    behind_last = sum(1 for t in ticks if t >= tm.ticks[-1])
    ctx.evaluations += n - 1
    ctx.note([case["res"], case["tempo"], lo, hi, step], nontrivial=len(ticks) >= 30,
             classes=["dense_behind_last_change" if behind_last >= 20 else "dense_across_changes",
                      f"dense_step_{step}"],
             sample={"res": case["res"], "tempo": case["tempo"][:4], "window": [lo, hi], "step": step, "events": n})


PARTS: list[Part] = [
    hyp_part("dense", strat_dense, check_dense, {"quick": 60, "thorough": 1200},
             {"quick": 6, "thorough": 16}),
    hyp_part("hints", strat_hints, check_hints, {"quick": 250, "thorough": 4000},
             {"quick": 4, "thorough": 16}),
    hyp_part("orders", strat_orders, check_orders, {"quick": 450, "thorough": 5000},
             {"quick": 6, "thorough": 16}),
    custom_part("history", drive_history, check_history, {"quick": 4, "thorough": 16}),
]
