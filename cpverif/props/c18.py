"""C18 — only documented errors escape; parsed charts always render."""
from __future__ import annotations

import json
import os
import shutil
import subprocess
import sys
import tempfile

from hypothesis import strategies as st

from cpverif import c18_oracle as O
from cpverif import core
from cpverif import spec as S
from cpverif import strategies as G
from cpverif.core import Ctx, Part, custom_part, enum_part, hyp_part

RULE = (
    "Three generators share one oracle. part mutations: Hypothesis sequences of 1..8 edits applied to a "
    "rendered well-formed chart: line delete / duplicate / swap / move, insertion or replacement by a "
    "fragment from a dictionary of headers, braces and corner-value lines ('B 0', 'TS 3 63', 'N 5 0' "
    "first, 'Resolution = 0', 'S 2 99999999', 'Player2 = drums', ...), character insert / delete / "
    "replace from the format's alphabet (incl. Unicode digits, NBSP, CR, FF, LS), token substitution. "
    "part assembled: texts assembled from arbitrary fragments and generated lines. part atheris: "
    "coverage-guided fuzzing (libFuzzer via atheris, chartparse instrumented) of a structure-aware "
    "decoder (bytes -> fragment picks + edits) and of raw text with a token dictionary, from an empty "
    "corpus and from a seed corpus of rendered charts and the repository's test data; crashes are "
    "line/char-ddmin'ed into replay files. Oracle: outcome in {chart, ValueError, RegexNotMatchError, "
    "MissingRequiredField}, anything else (bucketed by exception type + innermost chartparse frame) is "
    "a violation; for a returned chart str() and repr() of the chart, metadata, every track and every "
    "event must succeed. Texts outside the quantifier (a digit run > 8 digits, time-signature exponent "
    ">= 64) are skipped and counted. Non-trivial iff the text got past section framing (an error raised "
    "below chart.py, or a chart) and differs from the well-formed render; distinct = distinct text."
)
ASSUMPTIONS = [
    "numeric tokens of at most 8 digits and time-signature exponents below 64 (the property allows "
    "OverflowError / unprintable integers beyond); texts outside are skipped and counted, not judged",
    "atheris campaigns are pinned by -seed and -runs only approximately; the saved input is the "
    "reproducible unit",
]

DICT = [
    "[Song]", "[SyncTrack]", "[Events]", "[ExpertSingle]", "[EasyDrums]", "[HardGHLBass]", "[Foo]", "[]", "[",
    "]", "{", "}", "", " ", "  0 = B 0", "  0 = B 000", "  0 = B 1", "  0 = B 99999999", "  0 = TS 3 63",
    "  0 = TS 0 0", "  0 = TS 0", "  0 = TS 99999999 63", "  5 = N 5 0", "  5 = N 6 0", "  0 = N 7 0",
    "  0 = N 7 99999999", "  99999999 = N 0 0", "  99999999 = N 0 99999999", "  0 = S 2 99999999",
    "  0 = S 2 0", "  Resolution = 0", "  Resolution = 1", "  Resolution = 99999999", "  Resolution = 192",
    "  Player2 = drums", "  Player2 = \"bass\"", "  Offset = x", "  Offset = 99999999", "  0 = A 99999999",
    "  0 = A 0", '  0 = E "lyric "', '  0 = E "section "', '  0 = E ""', '  0 = E "', "  0 = E solo",
    "  0 = E ", "  99999999 = E soloend", '  99999999 = E "end"', "  0 = TS 4", "  0 = B 120000",
    "  1 = B 120000", "  0 = N 0 0", "  0 = N 4 5", "  0 = N 5 0", "  1 = N 5 0", "  0 = N 6 0",
    "  10 = TS 6 3", "  Name = \"\"", "  Name = \"x\"", "  Year = \", 2018\"", "  Difficulty = 99999999",
    "  PreviewStart = 1", "  ٣ = N 0 0", "  0 = N ٣ 0", "  0 = B ١٢٠٠٠٠", "﻿[Song]", "  0 = N 0 -1",
    "  -1 = N 0 0", "  0 = S 64 5", "  0 = N 8 0",
]
DICT_BODY = [d for d in DICT if d.startswith("  ") and d.strip()]
ALPHABET = list(' \t"=[]{}0123456789NSEBTAH-.axé') + ["٣", "\xa0", "\r", "\x0c", " ", "\x1c", "\x85"]

_small_tempo = st.one_of(st.integers(20_000, 400_000), st.integers(1, 99_999_999),
                         st.sampled_from([1, 999, 1000, 99_999_999]))
_small_res = st.one_of(st.sampled_from([192, 480, 96, 1]), st.integers(1, 2000), st.integers(1, 99_999_999))

_op = st.tuples(st.sampled_from(["del", "dup", "swap", "move", "ins_frag", "rep_frag", "ch_ins", "ch_del",
                                 "ch_rep", "tok"]),
                st.integers(0, 10 ** 6), st.integers(0, 10 ** 6), st.integers(0, 10 ** 6))


def _within_digits(spec):
    # padded layouts write some ticks with up to three leading zeros; a tick of more than five digits would
    # then be a numeric token of more than 8 digits, i.e. outside the quantifier: such charts keep the
    # canonical layout
    big = any(it[0] >= 100_000 for items in spec["tracks"].values() for it in items) or \
        any(it[0] >= 100_000 for it in spec["sync"]) or any(e[0] >= 100_000 for e in spec["events"])
    return dict(spec, fmt=0) if big and spec.get("fmt") else spec


def strat_mutations(ctx: Ctx):
    return st.builds(lambda c, ops: {"spec": _within_digits(c["spec"]), "ops": [list(o) for o in ops]},
                     G.chart_specs(max_segments=3, max_tracks=2, max_notes=6, max_events=3, max_ts=2,
                                   max_anchors=1, min_tracks=1, min_notes=2,
                                   tempo_values=_small_tempo, max_tick_cap=40_000_000,
                                   anchor_max=99_999_999, res=_small_res),
                     st.lists(_op, min_size=1, max_size=ctx.pick(8, 16)))


def _frag(c: int) -> str:
    # two thirds of the inserted fragments are body lines (corner values), one third may be structure
    if c % 3 != 2:
        return DICT_BODY[(c // 3) % len(DICT_BODY)]
    return DICT[(c // 3) % len(DICT)]


def _structural(line: str) -> bool:
    return line in ("{", "}", "") or (line.startswith("[") and line.endswith("]"))


def apply_ops(lines: list[str], ops) -> list[str]:
    lines = list(lines)
    for op, a, b, c in ops:
        n = len(lines)
        if n == 0:
            lines.append(DICT[c % len(DICT)])
            continue
        # scramble so that Hypothesis' favourite small integers do not all land on the first lines
        i, j = (a ^ 0x5BD1E995) % n, (b ^ 0x27D4EB2F) % n
        if c % 4 != 3 and _structural(lines[i]):
            # most edits should land on body lines: framing errors are only one of the stages
            for d in range(1, n):
                if not _structural(lines[(i + d) % n]):
                    i = (i + d) % n
                    break
        if op == "del":
            del lines[i]
        elif op == "dup":
            lines.insert(i, lines[i])
        elif op == "swap":
            lines[i], lines[j] = lines[j], lines[i]
        elif op == "move":
            x = lines.pop(i)
            lines.insert(j % (len(lines) + 1), x)
        elif op == "ins_frag":
            lines.insert(i, _frag(c))
        elif op == "rep_frag":
            lines[i] = _frag(c)
        elif op == "ch_ins":
            s = lines[i]
            k = b % (len(s) + 1)
            lines[i] = s[:k] + ALPHABET[c % len(ALPHABET)] + s[k:]
        elif op == "ch_del":
            s = lines[i]
            if s:
                k = b % len(s)
                lines[i] = s[:k] + s[k + 1:]
        elif op == "ch_rep":
            s = lines[i]
            if s:
                k = b % len(s)
                lines[i] = s[:k] + ALPHABET[c % len(ALPHABET)] + s[k + 1:]
        elif op == "tok":
            toks = lines[i].split(" ")
            k = b % len(toks)
            repl = DICT[c % len(DICT)].split(" ")
            toks[k] = repl[c % len(repl)] if repl else ""
            lines[i] = " ".join(toks)
    return lines


def _judge_and_note(ctx: Ctx, text: str, base_text, rc, kinds=()):
    if not O.in_domain(text):
        ctx.classes["skipped_outside_quantifier"] += 1
        ctx.evaluations += 1
        return
    outcome, stage, viol = O.judge(text)
    if viol:
        ctx.fail(f"leak:{outcome}@{stage}", viol, rc)
    nt = O.past_framing(outcome, stage) and text != base_text
    ctx.note(text, nontrivial=nt, classes=[f"outcome_{outcome}", f"stage_{stage.split(':')[0]}"] + list(kinds),
             sample={"text": text[:500], "outcome": outcome, "stage": stage})


def check_mutation(ctx: Ctx, case) -> None:
    if "text" in case and "spec" not in case:
        _judge_and_note(ctx, case["text"], None, case)
        return
    base = S.render(case["spec"])
    lines = apply_ops(base.split("\n"), case["ops"])
    text = "\n".join(lines)
    _judge_and_note(ctx, text, base, {"text": text, "ops": case["ops"]},
                    kinds=[f"op_{o[0]}" for o in case["ops"][:3]])


# ------------------------------------------------------------------------------------------------
_gen_line = st.one_of(
    st.sampled_from(DICT), st.sampled_from(DICT),
    st.builds(lambda t, i, n: f"  {t} = N {i} {n}", st.integers(0, 5000), st.integers(0, 9), st.integers(0, 999)),
    st.builds(lambda t, n: f"  {t} = B {n}", st.integers(0, 5000), st.integers(0, 999999)),
    st.builds(lambda t, u, l: f"  {t} = TS {u} {l}", st.integers(0, 5000), st.integers(0, 99), st.integers(0, 63)),
    st.builds(lambda t, n: f"  {t} = S 2 {n}", st.integers(0, 5000), st.integers(0, 99999)),
    st.builds(lambda t, w: f'  {t} = E "{w}"', st.integers(0, 5000), G.global_texts),
    st.builds(lambda t, w: f"  {t} = E {w}", st.integers(0, 5000), G.words),
    st.text(alphabet=st.sampled_from(ALPHABET), max_size=12),
)


@st.composite
def _assembled(draw, ctx):
    lines = []
    names = ["Song", "SyncTrack", "Events", "ExpertSingle", "EasyDrums", "Foo", "MediumKeyboard"]
    secnames = ["Song", "SyncTrack", "Events"] + draw(st.lists(st.sampled_from(names), max_size=4))
    if draw(st.integers(0, 5)) == 0:
        secnames = draw(st.lists(st.sampled_from(names), max_size=6))
    elif draw(st.booleans()):
        secnames = draw(st.permutations(secnames))
    for name in secnames:
        style = draw(st.integers(0, 60))
        if style != 0:
            lines.append(f"[{name}]")
        if style != 1:
            lines.append("{")
        body = draw(st.lists(_gen_line, max_size=ctx.pick(8, 20)))
        if name == "Song" and draw(st.integers(0, 3)) != 0:
            body.insert(0, f"  Resolution = {draw(st.sampled_from([192, 1, 0, 480, 99999999]))}")
        if name == "SyncTrack" and draw(st.integers(0, 3)) != 0:
            body[0:0] = ["  0 = TS 4", f"  0 = B {draw(st.sampled_from([120000, 1, 0, 99999999]))}"]
        lines += body
        if style != 2:
            lines.append("}")
    if draw(st.integers(0, 7)) == 0:
        lines += draw(st.lists(_gen_line, max_size=2))
    nl = draw(st.sampled_from(["\n", "\n", "\r\n", "\r"]))
    return {"text": nl.join(lines) + draw(st.sampled_from(["", "\n"]))}


def strat_assembled(ctx: Ctx):
    return _assembled(ctx)


def check_assembled(ctx: Ctx, case) -> None:
    _judge_and_note(ctx, case["text"], None, case)


# ------------------------------------------------------------------------------------------------
def _ddmin(text: str, still_fails) -> str:
    """Line-level then character-level delta debugging of a failing text."""
    def reduce(units, join):
        n = 2
        while len(units) >= 2:
            chunk = max(1, len(units) // n)
            reduced = False
            for i in range(0, len(units), chunk):
                cand = units[:i] + units[i + chunk:]
                if cand and still_fails(join(cand)):
                    units = cand
                    n = max(n - 1, 2)
                    reduced = True
                    break
            if not reduced:
                if chunk == 1:
                    break
                n = min(n * 2, len(units))
        return units
    lines = reduce(text.split("\n"), "\n".join)
    text = "\n".join(lines)
    if len(text) <= 2000:
        chars = reduce(list(text), "".join)
        text = "".join(chars)
    return text


def drive_atheris(ctx: Ctx) -> None:
    """Runs cpverif/fuzz/c18_atheris.py in a subprocess (libFuzzer owns the process)."""
    try:
        import atheris  # noqa: F401
    except Exception as e:  # noqa: BLE001
        ctx.extra["atheris"] = f"unavailable: {type(e).__name__}: {e}"
        ctx.classes["atheris_unavailable"] += 1
        return
    runs = int(os.environ.get("CPV_C18_RUNS") or ctx.pick(12_000, 300_000))   # env override: long campaigns
    mode = ["structured", "raw"][ctx.shard % 2]
    seeded = (ctx.shard // 2) % 2 == 0
    work = tempfile.mkdtemp(prefix=f"c18_{ctx.shard}_", dir=_work_dir())
    try:
        corpus = os.path.join(work, "corpus")
        arte = os.path.join(work, "artifacts") + os.sep
        os.makedirs(corpus)
        os.makedirs(arte)
        stats = os.path.join(work, "stats.json")
        script = os.path.join(core.VERIF, "cpverif", "fuzz", "c18_atheris.py")
        env = dict(os.environ, CPV_FUZZ_MODE=mode, CPV_FUZZ_STATS=stats, CPV_FUZZ_SEEDED="1" if seeded else "0",
                   CPV_FUZZ_CORPUS=corpus)
        cmd = [sys.executable, script, corpus, f"-runs={runs}", f"-seed={ctx.sub_seed('atheris') % (2 ** 31 - 1) + 1}",
               f"-artifact_prefix={arte}", "-max_len=2048", "-timeout=20", "-rss_limit_mb=4096",
               "-print_final_stats=0", "-verbosity=0"]
        p = subprocess.run(cmd, env=env, capture_output=True, text=True,
                           timeout=int(os.environ.get("CPV_C18_TIMEOUT") or ctx.pick(600, 7200)))
        st_ = {}
        if os.path.exists(stats):
            with open(stats) as f:
                st_ = json.load(f)
        ctx.evaluations += int(st_.get("executions", 0))
        ctx.distinct_by_construction += int(st_.get("distinct_nontrivial", 0))
        for k, v in st_.get("classes", {}).items():
            ctx.classes[f"{mode}_{k}"] += v
        for s in st_.get("samples", [])[:2]:
            if len(ctx.samples) < ctx.max_samples:
                ctx.samples.append({"mode": mode, "seeded": seeded, **s})
        ctx.extra[f"shard{ctx.shard}"] = {"mode": mode, "seeded_corpus": seeded, "runs": runs,
                                          "executions": st_.get("executions"),
                                          "corpus_files": len(os.listdir(corpus)),
                                          "returncode": p.returncode}
        crashes = sorted(f for f in os.listdir(arte) if f.startswith(("crash-", "timeout-", "oom-")))
        if crashes:
            with open(os.path.join(arte, crashes[0]), "rb") as f:
                data = f.read()
            sys.path.insert(0, os.path.join(core.VERIF, "cpverif", "fuzz"))
            from cpverif.fuzz.c18_decode import decode
            text = decode(data, mode)
            if crashes[0].startswith("crash-") and O.in_domain(text):
                _, _, viol = O.judge(text)
                if viol:
                    bucket = O.judge(text)[:2]
                    small = _ddmin(text, lambda t: O.in_domain(t) and O.judge(t)[:2] == bucket
                                   and O.judge(t)[2] is not None)
                    outcome, stage, v2 = O.judge(small)
                    ctx.fail(f"leak:{outcome}@{stage}", v2 or viol, {"text": small, "found_by": f"atheris/{mode}"})
            # a crash that does not reproduce through the oracle is a harness matter, not a violation
            raise core.HarnessError(f"atheris artefact {crashes[0]} did not reproduce; stderr tail: "
                                    f"{p.stderr[-800:]}")
        if p.returncode != 0:
            raise core.HarnessError(f"atheris exited {p.returncode}: {p.stderr[-800:]}")
    finally:
        shutil.rmtree(work, ignore_errors=True)


def _work_dir() -> str:
    return core.work_dir()


def corner_cases(ctx: Ctx):
    """A handful of hand-written well-formed charts at corners that random mutation reaches only by luck: every
    time of a track is zero (resolution 10^7: ticks 0, 1, 2 all round to 0 us), tracks of one note, of notes
    on one tick only, of zero-length everything, sections without a body; each must parse and render."""
    def chart(res, sync, events, tracks):
        return S.render({"res": res, "sync": sync, "events": events, "tracks": tracks})
    base_sync = [[0, "TS", 4], [0, "B", 120000]]
    yield {"text": chart(10 ** 7, base_sync, [[0, "section a"], [1, "lyric b"]],
                         {"ExpertSingle": [[0, "N", 0, 0], [1, "N", 1, 0], [2, "N", 2, 0], [2, "S", 2, 0], [2, "E", "solo"]],
                          "HardSingle": [[0, "N", 0, 0], [0, "N", 1, 0]]})}
    yield {"text": chart(99999999, [[0, "TS", 4], [0, "B", 99999999]], [],
                         {"EasyDrums": [[0, "N", 0, 1], [1, "N", 1, 1], [3, "N", 7, 2]], "MediumKeyboard": []})}
    yield {"text": chart(192, base_sync, [], {"ExpertSingle": [[0, "N", 7, 0]], "ExpertDoubleBass": [[0, "S", 2, 0]],
                                               "ExpertGHLGuitar": [[0, "E", "x"]], "ExpertDrums": []})}
    yield {"text": chart(1, [[0, "TS", 0, 0], [0, "B", 1]], [[0, ""]], {"EasySingle": [[0, "N", 0, 0], [0, "N", 6, 0]]})}
    yield {"text": chart(192, base_sync + [[0, "A", 0]], [[0, "lyric "], [0, "section "]],
                         {h: [[0, "N", 0, 0], [0, "N", 1, 0]] for h in ("EasySingle", "EasyDoubleBass", "EasyDrums")})}


    # every string field of [Song] set to a value made of characters that mean something to formatting, slicing
    # or splitting code (the parse may refuse a chart only with a documented error; a returned chart must render)
    from cpverif.model import FIELDS
    for v in [",", ",2018", ", ", '"', "'", " ", "=", " = ", "%", "%s", "{", "}", "{0}", "\\", "\\n", "[", "]", "0", "-1", ".", "..", "/",
              "//", "#", ";", ":", "*", "?", "a,b", "a=b", "(1988)", "lyric ", "section ", "\t"]:
        song = [[f[0], '"' + v + '"'] for f in FIELDS if f[2] == "str"] + [["Resolution", "192"]]
        yield {"text": S.render({"res": 192, "song": song, "sync": base_sync, "events": [[0, v]] if '"' not in v else [],
                                 "tracks": {"ExpertSingle": [[0, "N", 0, 0]]}})}


PARTS: list[Part] = [
    enum_part("corners", corner_cases, check_assembled, {"quick": 1, "thorough": 1}),
    hyp_part("mutations", strat_mutations, check_mutation, {"quick": 900, "thorough": 10000},
             {"quick": 6, "thorough": 16}),
    hyp_part("assembled", strat_assembled, check_assembled, {"quick": 900, "thorough": 10000},
             {"quick": 4, "thorough": 16}),
    custom_part("atheris", drive_atheris, check_mutation, {"quick": 4, "thorough": 16}),
]
