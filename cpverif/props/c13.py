"""C13 — track selection restricts the parse and tracks do not interfere."""
from __future__ import annotations

from hypothesis import strategies as st

from cpverif import spec as S
from cpverif import strategies as G
from cpverif.core import Ctx, Part, hyp_part
from cpverif.lib import L
from cpverif.observe import diff_paths, obs_global, obs_metadata, obs_sync, obs_track

RULE = (
    "Hypothesis chart specs with a random subset of the 40 tracks (0..8 tracks quick, ..16 thorough). Per "
    "case several selections are tried: None, [], random subsets of the present tracks, supersets, "
    "pairs absent from the file, duplicates, passed as list or tuple. Oracle: parse(F, S) has exactly "
    "the keys S ∩ present, each track equal (== and observation) to the same key of parse(F, None); "
    "metadata, sync track and global events equal; [] gives no tracks, None all. Interference: one "
    "section's body is replaced by another track's body, garbage, an INVALID body (forced first note, "
    "ValueError if parsed) or nothing; every selection not containing that section must parse and "
    "equal the original's, and if the unrestricted parse succeeds every other track is unchanged. "
    "Non-trivial iff the file has >= 3 tracks and a selection is neither None nor all-present, or a "
    "section was replaced; distinct = distinct (file, selections, replacement)."
    ' Files in which a header occurs twice with different bodies: restricted parses must agree with the unrestricted parse of the same file (which body counts is not asserted).'
)
ASSUMPTIONS = [
    "selections are sequences of (Instrument, Difficulty) pairs as documented",
]


def _pair(h):
    i, d = S.HEADERS[h]
    return (L.Instrument[i], L.Difficulty[d])


def _keys(chart) -> set[str]:
    rev = {v: k for k, v in S.HEADERS.items()}
    out = set()
    for inst, inner in chart.instrument_tracks.items():
        for diff in inner:
            out.add(rev[(inst.name, diff.name)])
    return out


def _track(chart, h):
    i, d = _pair(h)
    return chart.instrument_tracks[i][d]


@st.composite
def _cases(draw, ctx):
    c = draw(G.chart_specs(max_segments=3, max_tracks=ctx.pick(8, 16), max_notes=6, max_events=3,
                           max_ts=1, max_anchors=1,
                           min_tracks=draw(st.sampled_from([0, 1, 2, 3, 3, 4, 5]))))
    spec = c["spec"]
    present = list(spec["tracks"])
    absent = [h for h in S.HEADER_LIST if h not in spec["tracks"]]
    sels = [None, []]
    for _ in range(draw(st.integers(1, 4))):
        kind = draw(st.sampled_from(["subset", "subset", "superset", "absent", "dups", "single", "many", "many"]))
        if kind == "subset":
            sel = draw(st.lists(st.sampled_from(present), unique=True, max_size=len(present))) if present else []
        elif kind == "single":
            sel = [draw(st.sampled_from(present))] if present else [draw(st.sampled_from(absent))]
        elif kind == "superset":
            sel = list(present) + draw(st.lists(st.sampled_from(absent), max_size=3, unique=True))
            sel = draw(st.permutations(sel))
        elif kind == "many":
            # LONG selections: as many entries as there are pairs (40) or more, without naming them all:
            # one or two pairs repeated, 39 distinct pairs and a repeat, all 40 (also reversed, also twice)
            how = draw(st.integers(0, 4))
            if how == 0:
                sel = [draw(st.sampled_from(present or absent))] * draw(st.sampled_from([39, 40, 41, 64, 100]))
            elif how == 1:
                a, b = draw(st.sampled_from(present or absent)), draw(st.sampled_from(absent or present))
                sel = [a, b] * draw(st.sampled_from([20, 25, 40]))
            elif how == 2:
                drop = draw(st.sampled_from(present or absent))
                sel = [h for h in S.HEADER_LIST if h != drop]
                sel = sel + [sel[draw(st.integers(0, 38))]] * draw(st.sampled_from([1, 2]))
            elif how == 3:
                sel = list(reversed(S.HEADER_LIST))
            else:
                sel = list(S.HEADER_LIST) * 2
        elif kind == "absent":
            sel = draw(st.lists(st.sampled_from(absent), min_size=1, max_size=3, unique=True))
        else:
            base = draw(st.lists(st.sampled_from(present or absent), min_size=1, max_size=3))
            sel = base + base
        sels.append(list(sel))
    replace = None
    if present and draw(st.integers(0, 2)) > 0:
        x = draw(st.sampled_from(present))
        kind = draw(st.sampled_from(["other_track", "garbage", "invalid_forced_first", "empty",
                                     "invalid_unsorted", "reversed_copy", "reversed_copy"]))
        if kind == "other_track":
            src = draw(st.sampled_from(present))
            body = [S.track_line(it) for it in spec["tracks"][src]] + ["7 = N 3 0"]
        elif kind == "garbage":
            # (rendered with the two-blank body indent: '}' becomes '  }', which is just an unparsable
            # body line, not a section end)
            body = draw(st.lists(st.sampled_from(["garbage", "0 = B 120000", "0 = TS 4", "{", "",
                                                  "0 = N 9 0", "Resolution = 7", '0 = E "x"', "}", "} ",
                                                  "}\t", "[EasySingle]", "[Events]", " {", "[Song]",
                                                  "0 = N 0 0", "5 = N 5 0"]),
                                 max_size=7))
        elif kind == "reversed_copy":
            # the lines of another section (or its own) in REVERSE order: the same ticks, the same strings;
            # over a multi-tempo map this runs backwards across tempo changes and is refused, over a single
            # tempo it is accepted -- either way for reasons that lie in this section alone
            src = draw(st.sampled_from(present))
            body = [S.track_line(it) for it in reversed(spec["tracks"][src])
                    if not (it[1] == "N" and it[2] == 5)] or ["0 = N 0 0"]
        elif kind == "invalid_forced_first":
            body = ["5 = N 0 0", "5 = N 5 0", "9 = N 1 0"]
        elif kind == "invalid_unsorted":
            # a star-power line whose tick precedes its predecessor across a tempo change -> ValueError
            body = [f"{c['max_tick']} = S 2 0", "0 = S 2 0"]
        else:
            body = []
        replace = {"header": x, "kind": kind, "body": body}
    dup = None
    if draw(st.integers(0, 2)) == 0:
        # a header that occurs TWICE in the file, with different bodies.  Which body counts is not asserted
        # (nothing says so); what is asserted is the statement's own relation: a restricted parse of this very
        # file gives the tracks, metadata, sync track and global events that the unrestricted parse gives
        names = present + ["Events", "Events", "Song", "SyncTrack"]
        h = draw(st.sampled_from(names))
        secs0 = dict(S.sections_of(spec))
        if h == "Events":
            body = secs0["Events"] + [f'{c["max_tick"]} = E "section second copy"']
        elif h == "Song":
            body = secs0["Song"] + ['Name = "second copy"', 'Charter = "second copy"']
        elif h == "SyncTrack":
            body = list(secs0["SyncTrack"])
        else:
            how = draw(st.sampled_from(["other", "shorter", "longer", "empty"]))
            if how == "other":
                body = list(secs0[draw(st.sampled_from(present))])
            elif how == "shorter":
                body = [ln for ln in secs0[h] if " = N 5 " not in ln][1:]
            elif how == "longer":
                body = secs0[h] + [f'{c["max_tick"]} = E second_copy']
            else:
                body = []
        dup = {"header": h, "body": body, "pos": draw(st.sampled_from(["end", "end", "after_first", "start"]))}
    return {"spec": spec, "selections": sels, "as_tuple": draw(st.booleans()), "replace": replace, "dup": dup}


def strat_cases(ctx: Ctx):
    return _cases(ctx)


_PATHS: dict = {}


def _path_for(text: str) -> str:
    """The text written once to a file of its own (kept for the worker's lifetime): every selection of a
    case then reads the SAME unchanged file through Chart.from_filepath."""
    import os
    import tempfile
    from cpverif import core
    key = core.h64(text)
    if key not in _PATHS:
        d = core.work_dir()
        if len(_PATHS) > 200:
            for p_ in _PATHS.values():
                try:
                    os.remove(p_)
                except OSError:
                    pass
            _PATHS.clear()
        fd, p_ = tempfile.mkstemp(prefix=f"c13_{os.getpid()}_", suffix=".chart", dir=d)
        with os.fdopen(fd, "w", encoding="utf-8", newline="") as f:
            f.write(text)
        _PATHS[key] = p_
    return _PATHS[key]


def _parse(ctx, text, sel, as_tuple, rc, what):
    want = None
    if sel is not None:
        pairs = [_pair(h) for h in sel]
        want = tuple(pairs) if as_tuple else pairs
    if len(text) % 3 == 1:
        from pathlib import Path
        return L.Chart.from_filepath(Path(_path_for(text)), want_tracks=want)
    return L.parse(text, want_tracks=want)


def _common(ctx, what, full_common, chart, rc):
    got = {"metadata": obs_metadata(chart.metadata), "sync": obs_sync(chart.sync_track),
           "global": obs_global(chart.global_events_track)}
    if got != full_common:
        ctx.fail(what, f"metadata/sync/global events changed: {diff_paths(full_common, got)}", rc)
        return False
    return True


def check_case(ctx: Ctx, case) -> None:
    spec = case["spec"]
    text = S.render(spec)
    present = set(spec["tracks"])
    rc0 = {"text": text}
    try:
        full = _parse(ctx, text, None, False, rc0, "full")
    except Exception as e:  # noqa: BLE001
        ctx.fail("chart-parses", f"well-formed chart rejected: {type(e).__name__}: {e}", rc0)
        return
    if _keys(full) != present:
        ctx.fail("none-selects-all", f"unrestricted parse has tracks {sorted(_keys(full))}, file has "
                                     f"{sorted(present)}", rc0)
        return
    full_common = {"metadata": obs_metadata(full.metadata), "sync": obs_sync(full.sync_track),
                   "global": obs_global(full.global_events_track)}
    full_tracks = {h: obs_track(_track(full, h)) for h in present}
    nontrivial = False
    for sel in case["selections"]:
        rc = {"text": text, "selection": sel, "as_tuple": case["as_tuple"]}
        try:
            ch = _parse(ctx, text, sel, case["as_tuple"], rc, "selection")
        except Exception as e:  # noqa: BLE001
            ctx.fail("selection-parses", f"parse with selection {sel} raised {type(e).__name__}: {e}", rc)
            continue
        want_keys = present if sel is None else present & set(sel)
        if _keys(ch) != want_keys:
            ctx.fail("selection-keys", f"selection {sel}: tracks {sorted(_keys(ch))}, expected "
                                       f"{sorted(want_keys)}", rc)
            continue
        for inst, inner in ch.instrument_tracks.items():
            if not inner:
                ctx.fail("selection-keys", f"selection {sel}: empty entry for {inst.name}", rc)
        _common(ctx, "selection-common", full_common, ch, rc)
        for h in want_keys:
            tr = _track(ch, h)
            if obs_track(tr) != full_tracks[h] or not (tr == _track(full, h)):
                ctx.fail("selection-track-identical", f"selection {sel}: track {h} differs from the "
                                                      f"unrestricted parse: "
                                                      f"{diff_paths(full_tracks[h], obs_track(tr))}", rc)
        kind = "None" if sel is None else "empty" if not sel else \
            "all" if set(sel) >= present and present else "absent_only" if not (set(sel) & present) \
            else "proper_subset"
        ctx.classes[f"sel_{kind}"] += 1
        if len(present) >= 3 and kind in ("proper_subset", "absent_only", "empty"):
            nontrivial = True
    rep = case.get("replace")
    if rep:
        x = rep["header"]
        secs = [(n, (rep["body"] if n == x else b)) for n, b in S.sections_of(spec)]
        text2 = S.render_sections(secs)
        sels = [s for s in case["selections"] if s is not None and x not in s]
        others = sorted(present - {x})
        sels.append(others)
        for sel in sels:
            rc = {"text": text, "replaced_text": text2, "selection": sel, "replace": rep}
            try:
                ch = _parse(ctx, text2, sel, case["as_tuple"], rc, "interference")
            except Exception as e:  # noqa: BLE001
                ctx.fail("unselected-section-interferes",
                         f"section {x} ({rep['kind']}) is not selected by {sel} but the parse raised "
                         f"{type(e).__name__}: {e}", rc)
                continue
            want_keys = present & set(sel)
            if _keys(ch) != want_keys:
                ctx.fail("selection-keys", f"after replacing {x}: tracks {sorted(_keys(ch))}, expected "
                                           f"{sorted(want_keys)}", rc)
                continue
            _common(ctx, "interference-common", full_common, ch, rc)
            for h in want_keys:
                if obs_track(_track(ch, h)) != full_tracks[h] or not (_track(ch, h) == _track(full, h)):
                    ctx.fail("track-interference", f"replacing section {x} ({rep['kind']}) changed "
                                                   f"track {h}", rc)
        rc = {"text": text, "replaced_text": text2, "selection": None, "replace": rep}
        try:
            ch = L.parse(text2)
        except Exception:  # noqa: BLE001  (which error class escapes is C18's subject, not C13's)
            ctx.classes["replaced_unrestricted_raises"] += 1
        else:
            for h in others:
                try:
                    tr = _track(ch, h)
                except KeyError:
                    ctx.fail("track-interference", f"replacing {x} removed track {h}", rc)
                    continue
                if obs_track(tr) != full_tracks[h]:
                    ctx.fail("track-interference", f"replacing section {x} ({rep['kind']}) changed "
                                                   f"track {h}", rc)
        # what becomes of section x itself is decided by x (and the required sections) alone: with and
        # without the other instrument sections in the file the outcome is the same
        alone = S.render_sections([(n, b) for n, b in secs if n == x or n in S.REQUIRED])
        outcomes = []
        for t_, sel_ in ((text2, [x]), (alone, [x]), (text2, None), (alone, None)):
            try:
                ch = L.parse(t_, want_tracks=None if sel_ is None else [_pair(h) for h in sel_])
                outcomes.append(("ok", obs_track(_track(ch, x))))
            except Exception as e:  # noqa: BLE001
                outcomes.append(("raises", None))
        if outcomes[0] != outcomes[1]:
            ctx.fail("section-outcome-depends-on-others",
                     f"section {x} ({rep['kind']}), selected alone: {outcomes[0][0]} in the full file but "
                     f"{outcomes[1][0]} in a file without the other instrument sections"
                     + (f": {diff_paths(outcomes[1][1], outcomes[0][1])}" if outcomes[0][0] == outcomes[1][0] else ""),
                     dict(rc, alone_text=alone))
        elif outcomes[1][0] == "raises" and outcomes[2][0] == "ok":
            ctx.fail("section-outcome-depends-on-others",
                     f"section {x} ({rep['kind']}) is refused on its own but accepted by the unrestricted parse "
                     f"of the full file", dict(rc, alone_text=alone))
        elif outcomes[2][0] == "ok" and outcomes[2] != outcomes[3] and outcomes[3][0] == "ok":
            ctx.fail("section-outcome-depends-on-others",
                     f"section {x} ({rep['kind']}) parses differently next to the other sections: "
                     f"{diff_paths(outcomes[3][1], outcomes[2][1])}", dict(rc, alone_text=alone))
        ctx.classes[f"replace_{rep['kind']}"] += 1
        ctx.classes[f"replaced_section_alone_{outcomes[1][0]}"] += 1
        nontrivial = True
    dup = case.get("dup")
    if dup:
        secs = list(S.sections_of(spec))
        entry = (dup["header"], dup["body"])
        if dup["pos"] == "end":
            secs.append(entry)
        elif dup["pos"] == "start":
            secs.insert(0, entry)
        else:
            k = next(i for i, (n, _) in enumerate(secs) if n == dup["header"])
            secs.insert(k + 1, entry)
        text3 = S.render_sections(secs)
        rc = {"text": text3, "repeated_header": dup["header"]}
        try:
            full3 = L.parse(text3)
        except Exception:  # noqa: BLE001  (whether a repeated header is accepted at all is not asserted)
            ctx.classes["repeated_header_unrestricted_raises"] += 1
        else:
            ctx.classes[f"repeated_header_{'required' if dup['header'] in S.REQUIRED else 'track'}"] += 1
            present3 = _keys(full3)
            common3 = {"metadata": obs_metadata(full3.metadata), "sync": obs_sync(full3.sync_track),
                       "global": obs_global(full3.global_events_track)}
            for sel in case["selections"] + [sorted(present3)]:
                if sel is None:
                    continue
                rc = {"text": text3, "selection": sel, "as_tuple": case["as_tuple"], "repeated_header": dup["header"]}
                try:
                    ch = L.parse(text3, want_tracks=(tuple if case["as_tuple"] else list)(_pair(h) for h in sel))
                except Exception as e:  # noqa: BLE001
                    ctx.fail("selection-parses", f"file with [{dup['header']}] written twice: the unrestricted parse "
                                                 f"succeeds but selection {sel} raised {type(e).__name__}: {e}", rc)
                    continue
                want_keys = present3 & set(sel)
                if _keys(ch) != want_keys:
                    ctx.fail("selection-keys", f"file with [{dup['header']}] written twice, selection {sel}: tracks "
                                               f"{sorted(_keys(ch))}, expected {sorted(want_keys)}", rc)
                    continue
                _common(ctx, "selection-common", common3, ch, rc)
                for h in want_keys:
                    if obs_track(_track(ch, h)) != obs_track(_track(full3, h)) or not (_track(ch, h) == _track(full3, h)):
                        ctx.fail("selection-track-identical",
                                 f"file with [{dup['header']}] written twice, selection {sel}: track {h} differs from "
                                 f"the unrestricted parse of the same file: "
                                 f"{diff_paths(obs_track(_track(full3, h)), obs_track(_track(ch, h)))}", rc)
            nontrivial = True
    ctx.note([text, case["selections"], rep, dup], nontrivial=nontrivial,
             classes=[f"tracks_{min(len(present), 9)}"],
             sample={"tracks": sorted(present), "selections": case["selections"],
                     "replace": rep})


PARTS: list[Part] = [
    hyp_part("cases", strat_cases, check_case, {"quick": 250, "thorough": 2500},
             {"quick": 8, "thorough": 16}),
]
