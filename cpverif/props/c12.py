"""C12 — time is a non-decreasing function of tick across the whole chart."""
from __future__ import annotations

from hypothesis import strategies as st

from cpverif import spec as S
from cpverif import strategies as G
from cpverif.core import Ctx, Part, hyp_part
from cpverif.lib import L
from cpverif.model import TempoModel, td_us

RULE = (
    "part maps: Hypothesis tempo maps biased to extreme ratios (10^6 BPM next to 0.001 BPM, resolution 1 "
    "and 10^6, sub-microsecond ticks, gaps of 1 tick); the tick list is the full sweep T-3..T+3 around "
    "every tempo change, runs of 40 consecutive ticks and random ticks; both public queries are "
    "evaluated in ascending tick order. Oracle (pure order relation, no arithmetic model): timestamps "
    "non-decreasing, both queries agree per tick, strictly increasing whenever n*res <= 3*10^10 for "
    "every tempo (a tick lasts >= 2 us). part charts: whole charts with >= 2 tracks whose tempo, "
    "time-signature, global, note (start and end), star-power and track events share ticks; all "
    "(tick, timestamp) pairs of all events plus the query are merged and checked; end >= start per "
    "note. Non-trivial iff the compared ticks span >= 2 tempo segments; distinct = distinct "
    "(resolution, tempo map, tick list)."
    ' Every chart is also parsed with its star-power lines, track-event lines and global events in reverse order; if that is accepted the same relations are judged.'
)
ASSUMPTIONS = [
    "times below 10^6 s (same domain as C01) so that float error cannot defeat the 2 us strictness margin",
]

# resolution x tempo so that sub-microsecond ticks are common
_res = st.one_of(st.sampled_from([1, 192, 480, 960, 10 ** 4, 10 ** 5, 10 ** 6]), G.resolutions)


@st.composite
def _map_cases(draw, max_segments):
    tmap = draw(G.tempo_maps(max_segments=max_segments, values=G.extreme_bpm_values, res=_res,
                             min_segments=2))
    tm = TempoModel(tmap["res"], tmap["tempo"])
    max_tick = max(tm.max_tick_within(G.TIME_LIMIT_S) - 1, tm.ticks[-1])
    ticks = set()
    for T in tm.ticks:
        for d in range(-3, 4):
            if 0 <= T + d <= max_tick:
                ticks.add(T + d)
    for _ in range(draw(st.integers(0, 2))):
        s0 = draw(st.integers(0, max_tick))
        ticks.update(t for t in range(s0, s0 + 40) if t <= max_tick)
    ticks.update(draw(st.lists(G.tick_strategy(tm, max_tick), max_size=10)))
    ticks = sorted(ticks)
    if len(ticks) > 2400:
        ticks = ticks[:2400]
    return {"res": tmap["res"], "tempo": tmap["tempo"], "ticks": ticks}


def strat_maps(ctx: Ctx):
    return _map_cases(ctx.pick(16, 60))


def _regime_classes(tm: TempoModel):
    out = ["strict" if tm.strict_regime() else "non_strict"]
    if any(n * tm.res > 60_000_000_000 for _, n in tm.tempo):
        out.append("sub_us_ticks")
    ns = [n for _, n in tm.tempo]
    if max(ns) >= 10 ** 6 * min(ns):
        out.append("ratio>=1e6")
    return out


def _shadow_events(case):
    """BPMEvents of a second chart (every tempo a little faster, one more tempo event) kept alive and
    queried in lock-step with the chart under test: charts must not share lookup state."""
    tempo = [[t, n + 1 + n // 3] for t, n in case["tempo"]]
    tempo.append([tempo[-1][0] + 7, 123456])
    spec = {"res": case["res"], "sync": [[0, "TS", 4]] + [[t, "B", n] for t, n in tempo], "events": [], "tracks": {}}
    try:
        return L.parse(S.render(spec)).sync_track.bpm_events
    except Exception:  # noqa: BLE001
        return None


def check_maps(ctx: Ctx, case) -> None:
    tm = TempoModel(case["res"], case["tempo"])
    spec = {"res": case["res"], "sync": [[0, "TS", 4]] + [[t, "B", n] for t, n in case["tempo"]],
            "events": [], "tracks": {}}
    try:
        bpm = L.parse(S.render(spec)).sync_track.bpm_events
    except Exception as e:  # noqa: BLE001
        ctx.fail("chart-parses", f"well-formed tempo map rejected: {type(e).__name__}: {e}", case)
        return
    strict = tm.strict_regime()
    prev_t = prev_us = None
    segs = set()
    shadow = _shadow_events(case)
    for qi, t in enumerate(case["ticks"]):
        if shadow is not None and qi % 3 != 0:
            # another chart with another tempo map is alive and answers the same tick just before
            # (not for every tick: a consistently wrong timeline would still be monotone)
            try:
                shadow.timestamp_at_tick(t)
                shadow.timestamp_at_tick_no_optimize_return(t)
            except Exception:  # noqa: BLE001  (the shadow is not under test)
                pass
        try:
            a = td_us(bpm.timestamp_at_tick_no_optimize_return(t))
            b = td_us(bpm.timestamp_at_tick(t)[0])
        except Exception as e:  # noqa: BLE001
            ctx.fail("query-answers", f"query({t}) raised {type(e).__name__}: {e}", case)
            return
        if a != b:
            ctx.fail("queries-agree", f"tick {t}: no_optimize {a} us != timestamp_at_tick {b} us", case)
        if prev_t is not None:
            if a < prev_us:
                ctx.fail("non-decreasing", f"time({prev_t}) = {prev_us} us > time({t}) = {a} us", case)
            if strict and t > prev_t and a <= prev_us:
                ctx.fail("strictly-increasing", f"every tick lasts >= 2 us but time({prev_t}) = "
                                                f"{prev_us} us >= time({t}) = {a} us", case)
        prev_t, prev_us = t, a
        segs.add(tm.governing_fast(t))
    ctx.note(case, nontrivial=len(segs) >= 2, classes=_regime_classes(tm) + [f"segs_{min(len(segs), 8)}"],
             sample={"res": case["res"], "tempo": case["tempo"][:5], "ticks": case["ticks"][:16]})
    ctx.evaluations += len(case["ticks"]) - 1
    _doubtful_maps(ctx, case)


def _doubtful_maps(ctx: Ctx, case) -> None:
    """Tempo sections a parser may well refuse (a tick written twice with two tempos, a tick out of
    order): refusing them is C15's subject, but IF such a section is accepted, the timeline it yields
    must still never run backwards."""
    tempo = case["tempo"]
    if len(tempo) < 2 or (len(tempo) + sum(t for t, _ in tempo[:4])) % 3:
        return
    k = 1 + sum(n for _, n in tempo[:3]) % (len(tempo) - 1)
    t_k, n_k = tempo[k]
    variants = []
    for other in (max(1, n_k // 4), min(10 ** 9, n_k * 4)):
        variants.append(tempo[:k] + [[t_k, other], [t_k, n_k]] + tempo[k + 1:])
        variants.append(tempo[:k + 1] + [[t_k, other]] + tempo[k + 1:])
    if k + 1 < len(tempo):
        variants.append(tempo[:k] + [tempo[k + 1], tempo[k]] + tempo[k + 2:])
    lo = tempo[k - 1][0]
    hi = tempo[k + 1][0] if k + 1 < len(tempo) else t_k + 50
    ticks = sorted(set([t for t in case["ticks"]] + list(range(max(0, t_k - 3), t_k + 4)) + [lo, hi, hi + 1, hi + 7]))
    for v in variants:
        spec = {"res": case["res"], "sync": [[0, "TS", 4]] + [[t, "B", n] for t, n in v], "events": [], "tracks": {}}
        try:
            bpm = L.parse(S.render(spec)).sync_track.bpm_events
        except Exception:  # noqa: BLE001  (rejection is the expected outcome; which error is C15 / C18)
            ctx.classes["doubtful_map_rejected"] += 1
            continue
        ctx.classes["doubtful_map_accepted"] += 1
        prev_t = prev_us = None
        for t in ticks:
            try:
                a = td_us(bpm.timestamp_at_tick_no_optimize_return(t))
            except Exception:  # noqa: BLE001
                break
            if prev_t is not None and a < prev_us:
                ctx.fail("non-decreasing", f"tempo lines {v[max(0, k - 1):k + 3]} were accepted, and then "
                                           f"time({prev_t}) = {prev_us} us > time({t}) = {a} us",
                         dict(case, doubtful_tempo=v))
            prev_t, prev_us = t, a


def strat_charts(ctx: Ctx):
    return G.chart_specs(max_segments=ctx.pick(8, 24), max_tracks=3, min_tracks=2,
                         max_notes=ctx.pick(10, 20), max_events=5, max_ts=3,
                         tempo_values=G.extreme_bpm_values).map(
        lambda c: {"spec": c["spec"], "res": c["res"], "tempo": c["tempo"]})


def _unsorted_variant(spec):
    """The same chart with the star-power lines of every track in reverse order among themselves, likewise the
    track-event lines and the global events (the note lines stay where they are).  A parser may refuse it (an
    event running backwards across a tempo change, C11); if it is accepted, the chart's times must be monotone."""
    import copy
    v = copy.deepcopy(spec)
    changed = False
    for h, items in v["tracks"].items():
        for kind in ("S", "E"):
            pos = [i for i, it in enumerate(items) if it[1] == kind]
            if len({items[i][0] for i in pos}) >= 2:
                vals = [items[i] for i in reversed(pos)]
                for i, it in zip(pos, vals):
                    items[i] = it
                changed = True
    if len({e[0] for e in v.get("events", [])}) >= 2:
        v["events"] = list(reversed(v["events"]))
        changed = True
    return v if changed else None


def check_charts(ctx: Ctx, case) -> None:
    tm = TempoModel(case["res"], case["tempo"])
    rc = case
    try:
        chart = L.parse(S.render(case["spec"]))
    except Exception as e:  # noqa: BLE001
        ctx.fail("chart-parses", f"well-formed chart rejected: {type(e).__name__}: {e}", rc)
        return
    r = _relations(ctx, chart, tm, rc)
    var = _unsorted_variant(case["spec"])
    if var is not None:
        rc2 = dict(case, spec=var, variant="S / E lines and global events in reverse order")
        try:
            chart2 = L.parse(S.render(var))
        except Exception:  # noqa: BLE001  (refusing such a body is allowed; which error class is C18's subject)
            ctx.classes["unsorted_variant_refused"] += 1
        else:
            ctx.classes["unsorted_variant_accepted"] += 1
            _relations(ctx, chart2, tm, rc2)
    ticks, segs, shared, npairs = r
    ctx.note([case["res"], case["tempo"], ticks], nontrivial=len(segs) >= 2 and shared > 0,
             classes=_regime_classes(tm) + [f"tracks_{len(case['spec']['tracks'])}"],
             sample={"res": case["res"], "tempo": case["tempo"][:5], "ticks": ticks[:16],
                     "pairs": npairs})


def _relations(ctx: Ctx, chart, tm, rc):
    pairs = []  # (tick, us, where)
    st_ = chart.sync_track
    for e in st_.bpm_events:
        pairs.append((e.tick, td_us(e.timestamp), "bpm"))
    for e in st_.time_signature_events:
        pairs.append((e.tick, td_us(e.timestamp), "ts"))
    g = chart.global_events_track
    for name, lst in (("text", g.text_events), ("section", g.section_events), ("lyric", g.lyric_events)):
        for e in lst:
            pairs.append((e.tick, td_us(e.timestamp), name))
    for inst, inner in chart.instrument_tracks.items():
        for diff, tr in inner.items():
            w = f"{diff.name}/{inst.name}"
            for e in tr.note_events:
                s, en = td_us(e.timestamp), td_us(e.end_timestamp)
                if en < s:
                    ctx.fail("end-not-before-start", f"{w} note at tick {e.tick}: end {en} us < start "
                                                     f"{s} us", rc)
                pairs.append((e.tick, s, w + ":note"))
                pairs.append((e.end_tick, en, w + ":note_end"))
            for e in tr.star_power_events:
                pairs.append((e.tick, td_us(e.timestamp), w + ":sp"))
            for e in tr.track_events:
                pairs.append((e.tick, td_us(e.timestamp), w + ":tev"))
    bpm = st_.bpm_events
    for t in sorted({p[0] for p in pairs}):
        try:
            pairs.append((t, td_us(bpm.timestamp_at_tick_no_optimize_return(t)), "query"))
        except Exception as e:  # noqa: BLE001
            ctx.fail("query-answers", f"query({t}) raised {type(e).__name__}: {e}", rc)
    pairs.sort(key=lambda p: (p[0], p[1]))
    strict = tm.strict_regime()
    segs = set()
    shared = 0
    for (t0, u0, w0), (t1, u1, w1) in zip(pairs, pairs[1:]):
        if t0 == t1:
            shared += 1
            if u0 != u1:
                ctx.fail("equal-ticks-equal-times", f"tick {t0}: {w0} reports {u0} us but {w1} "
                                                    f"reports {u1} us", rc)
        else:
            if u1 < u0:
                ctx.fail("non-decreasing", f"{w0} at tick {t0} has {u0} us, after {w1} at tick {t1} "
                                           f"with {u1} us", rc)
            if strict and u1 <= u0:
                ctx.fail("strictly-increasing", f"ticks {t0} < {t1} but {u0} us >= {u1} us in the "
                                                f"strict regime", rc)
        segs.add(tm.governing_fast(t0))
        segs.add(tm.governing_fast(t1))
    ticks = sorted({p[0] for p in pairs})
    return ticks, segs, shared, len(pairs)


PARTS: list[Part] = [
    hyp_part("maps", strat_maps, check_maps, {"quick": 300, "thorough": 6000},
             {"quick": 6, "thorough": 16}),
    hyp_part("charts", strat_charts, check_charts, {"quick": 350, "thorough": 4000},
             {"quick": 6, "thorough": 16}),
]
