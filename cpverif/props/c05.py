"""C05 — star-power membership of notes is exact and half-open."""
from __future__ import annotations

import itertools
import random

from hypothesis import strategies as st

from cpverif import spec as S
from cpverif import strategies as G
from cpverif import trackcheck as T
from cpverif.core import Ctx, Part, custom_part, hyp_part
from cpverif.model import expected_notes

RULE = (
    "part small (bounded-exhaustive): ticks 0..9; ALL lists of <= 2 star-power phrases with start in 0..6 "
    "and length in 0..4, sorted by start tick (tied starts in both orders) x note-tick subsets of 0..7 "
    "(thorough: all 256 subsets; quick: every 16th subset + all singletons + the full set), plus "
    "3-phrase lists with PRNG-sampled note sets (seeded by VERIF_SEED). part relations: Hypothesis lists "
    "of <= 8 phrases built from relations (adjacent, nested, overlapping, zero-length, identical start, "
    "before all notes, after all notes) with note ticks drawn from {start-1, start, end-1, end} and "
    "random ticks, several notes after the last phrase, phrases without notes. Oracle: brute force "
    "over the phrase list in file order: first i with start_i <= t < start_i + len_i, else no star "
    "power data; the parsed star_power_events list must equal the written list. Non-trivial iff >= 2 "
    "phrases and (a note on a boundary tick, or >= 2 notes after the last phrase, or "
    "nested/overlapping/zero-length phrases present); distinct = distinct (phrase list, note ticks)."
    ' Also: phrases longer than 2^31..2^64 ticks with notes on the last covered and first uncovered tick; neighbour sections that are near-copies of the target.'
)
ASSUMPTIONS = [
    "phrases are ordered by start tick and notes strictly increasing (the quantifier's domain)",
]
HEADER = "MediumKeyboard"
TEMPO = [[0, 120000]]


def _items(phrases, note_ticks, sp_first=False):
    # notes vary in shape (single, chord, open, tap-flagged) and carry sustains that may reach into or
    # across phrases: membership is decided by the note's own tick only
    keyed = []
    for i, t in enumerate(note_ticks):
        sus = (i % 4) * 2
        if i % 7 == 3:
            keyed.append((t, 0, 2 * i, [t, "N", 7, sus]))
        else:
            keyed.append((t, 0, 2 * i, [t, "N", i % 5, sus]))
            if i % 3 == 0:
                keyed.append((t, 0, 2 * i + 1, [t, "N", (i + 2) % 5, (i % 2) * 3]))
        if i % 5 == 4:
            keyed.append((t, 0, 2 * i + 1, [t, "N", 6, 0]))
    # phrase lines behind the note lines of their tick (Moonscraper) or, with sp_first, in front of them
    keyed += [(p[0], -1 if sp_first else 1, k, [p[0], "S", 2, p[1]]) for k, p in enumerate(phrases)]
    keyed.sort(key=lambda x: (x[0], x[1], x[2]))
    return [x[3] for x in keyed]


def _classify(phrases, note_ticks):
    boundary = any(t in (p[0] - 1, p[0], p[0] + p[1] - 1, p[0] + p[1]) for t in note_ticks for p in phrases)
    last_end = max((p[0] + p[1] for p in phrases), default=0)
    after = sum(1 for t in note_ticks if t >= last_end)
    zero = any(p[1] == 0 for p in phrases)
    overlap = any(a[0] + a[1] > b[0] for a, b in itertools.combinations(phrases, 2))
    return boundary, after, zero, overlap


def check_case(ctx: Ctx, case) -> None:
    """case: {"phrases": [[start, len], ...] in file order, "notes": [ticks], "res"?}"""
    phrases, note_ticks = case["phrases"], case["notes"]
    res = case.get("res", 192)
    items = _items(phrases, note_ticks, sp_first=bool(case.get("sp_first")))
    exp = expected_notes(res, items)
    lines = [S.track_line(it) for it in items]
    rc = {"phrases": phrases, "notes": note_ticks, "lines": lines}
    header = S.HEADER_LIST[(len(lines) * 7 + len(phrases) * 3 + sum(note_ticks)) % 40]
    # a section without any phrase always has neighbours (two thirds of the time a fuller sibling
    # difficulty of the same instrument whose phrase covers every note)
    chart, tr = T.parse_track(ctx, res, case.get("tempo", TEMPO), lines, header, rc, fmt=case.get("fmt", 0),
                              decoy=None if phrases else 3)
    if tr is None:
        return
    got_sp = [[e.tick, e.sustain] for e in tr.star_power_events]
    if got_sp != [list(p) for p in phrases]:
        ctx.fail("phrase-list", f"star_power_events {got_sp} != written {phrases}", rc)
        return
    T.compare_notes(ctx, tr, exp, rc, {"ticks", "sp"})
    boundary, after, zero, overlap = _classify(phrases, note_ticks)
    ctx.note([phrases, note_ticks, case.get("fmt", 0)],
             nontrivial=len(phrases) >= 2 and (boundary or after >= 2 or zero or overlap),
             classes=[f"phrases_{min(len(phrases), 4)}"] + [c for c, f in (
                 ("boundary_note", boundary), ("notes_after_last>=2", after >= 2),
                 ("zero_length", zero), ("overlap_or_nested", overlap)) if f],
             sample={"phrases": phrases, "notes": note_ticks,
                     "expected_sp_index": [x["sp"] for x in exp]})


def _phrase_lists_upto2():
    singles = [[s, ln] for s in range(7) for ln in range(5)]
    yield []
    for p in singles:
        yield [p]
    for a in singles:
        for b in singles:
            if a[0] <= b[0]:           # sorted by start; tied starts appear in both orders
                yield [a, b]


def drive_small(ctx: Ctx) -> None:
    if ctx.quick:
        masks = sorted(set(range(0, 256, 16)) | {1 << i for i in range(8)} | {255})
    else:
        masks = list(range(256))
    i = 0
    for pl in _phrase_lists_upto2():
        for m in masks:
            i += 1
            if i % ctx.nshards != ctx.shard:
                continue
            case = {"phrases": pl, "notes": [t for t in range(8) if m >> t & 1], "fmt": i if i % 5 == 0 else 0,
                    "sp_first": i % 7 == 3}
            ctx.current = case
            check_case(ctx, case)
    # 3-phrase lists, sampled
    rng = random.Random(ctx.seed * 31 + 5)
    singles = [[s, ln] for s in range(7) for ln in range(5)]
    n3 = ctx.pick(1500, 200000)
    for j in range(n3):
        pl = sorted((rng.choice(singles) for _ in range(3)), key=lambda p: p[0])
        if rng.random() < 0.5:
            # reverse runs of tied starts so both orders occur
            pl = sorted(pl, key=lambda p: (p[0], -p[1]))
        m = rng.randrange(1, 256)
        if j % ctx.nshards != ctx.shard:
            continue
        case = {"phrases": [list(p) for p in pl], "notes": [t for t in range(8) if m >> t & 1]}
        ctx.current = case
        check_case(ctx, case)
    ctx.exhaustive["small"] = not ctx.quick
    ctx.extra["note_subsets"] = len(masks)


# ------------------------------------------------------------------------------------------------
@st.composite
def _relations(draw, ctx):
    scale = draw(st.sampled_from([1, 1, 7, 192, 1000]))
    n = draw(st.integers(1, 8))
    phrases = []
    start = draw(st.integers(0, 20)) * scale
    for k in range(n):
        ln = draw(st.sampled_from([0, 1, 2, 3, 5, 8, 13])) * scale
        phrases.append([start, ln])
        rel = draw(st.sampled_from(["same_start", "adjacent", "nested", "overlap", "gap", "gap"]))
        if rel == "same_start":
            pass
        elif rel == "adjacent":
            start = start + ln
        elif rel == "nested":
            start = start + draw(st.integers(0, max(0, ln // scale))) * scale // 2
        elif rel == "overlap":
            start = start + max(0, ln - scale)
        else:
            start = start + ln + draw(st.integers(1, 6)) * scale
    cands = set()
    for s, ln in phrases:
        for t in (s - 1, s, s + 1, s + ln - 1, s + ln, s + ln + 1):
            if t >= 0:
                cands.add(t)
    last_end = max(s + ln for s, ln in phrases)
    for d in range(1, 5):
        cands.add(last_end + d * scale)
    cands = sorted(cands)
    mode = draw(st.integers(0, 5))
    if mode == 0:
        notes = []
    else:
        picked = draw(st.sets(st.sampled_from(cands), max_size=min(len(cands), 14)))
        rnd = draw(st.sets(st.integers(0, last_end + 6 * scale), max_size=6))
        notes = sorted(picked | rnd)
        if mode == 1:   # all notes after every phrase
            notes = [t for t in notes if t >= last_end]
        elif mode == 2:  # all notes before the first phrase
            notes = [t for t in notes if t < phrases[0][0]]
    tempo = [[0, draw(st.sampled_from([120000, 120000, 10 ** 9, 777]))]]
    if draw(st.integers(0, 3)) == 0:
        tempo.append([draw(st.integers(1, max(1, last_end))), draw(st.sampled_from([60000, 10 ** 9]))])
    # LONG phrase lists: the block of phrases and notes repeated with shifted ticks
    if draw(st.integers(0, 9)) == 0:
        span = max([last_end] + notes) + draw(st.sampled_from([1, 1, 9]))
        reps = draw(st.sampled_from([10, 40, 130]))
        p0, n0 = list(phrases), list(notes)
        tail_only = draw(st.booleans())
        if tail_only:
            reps = draw(st.sampled_from([40, 130, 400]))
            notes = []          # a long run of phrases without any note, all notes behind it
        for k in range(1, reps):
            phrases = phrases + [[p[0] + k * span, p[1]] for p in p0]
            if not tail_only or k == reps - 1:
                notes = notes + [t + k * span for t in n0]
        if tail_only:
            notes = sorted(set(notes) | {reps * span + 1, reps * span + 2})
    if draw(st.integers(0, 9)) == 0:
        phrases = []            # a track with notes and no phrase at all
    if draw(st.integers(0, 9)) == 0:
        # a phrase LONGER than a machine integer / the exact range of a float (lengths are plain integers:
        # the half-open rule has to hold at the last covered tick and the first uncovered one)
        big = draw(st.sampled_from([2 ** 53 + 1, 2 ** 53 + 2, 2 ** 54 + 10, 10 ** 17 + 1, 2 ** 62 + 1, 2 ** 63 + 5,
                                    2 ** 64 + 3, 10 ** 19 + 7, 2 ** 31 + 1, 2 ** 32 + 1]))
        s0 = draw(st.sampled_from([0, 1, 96, 2 ** 32 + 5, 2 ** 53 + 3]))
        before = [p for p in phrases if p[0] + p[1] <= s0 and p[0] <= s0][:3]
        phrases = before + [[s0, big]]
        if draw(st.booleans()):
            phrases.append([s0 + big - draw(st.sampled_from([0, 1, 2, 5])), draw(st.sampled_from([0, 1, 3, 96]))])
        if draw(st.integers(0, 3)) == 0:
            phrases.append([s0 + big + 10, big])
        notes = sorted({t for t in notes if t < s0} | {s0 + d for d in draw(st.sets(st.sampled_from(
            [0, 1, 2, big // 2, big - 3, big - 2, big - 1, big, big + 1, big + 2, big + 9, big + 10, big + 11,
             2 * big + 9, 2 * big + 10]), min_size=2))})
        return {"phrases": phrases, "notes": notes, "res": draw(st.sampled_from([960, 10 ** 6])), "tempo": [[0, 10 ** 9]],
                "fmt": 0}
    if draw(st.integers(0, 7)) == 0:
        # everything moved up across the width of a machine integer, one fastest tempo
        off = draw(st.sampled_from(G.BIG_OFFSETS_32 + G.BIG_OFFSETS_64))
        phrases = [[p[0] + off, p[1]] for p in phrases]
        notes = [t + off for t in notes]
        return {"phrases": phrases, "notes": notes, "res": draw(st.sampled_from([960, 10 ** 6])), "tempo": [[0, 10 ** 9]],
                "fmt": 0}
    return {"phrases": phrases, "notes": notes, "res": draw(st.sampled_from([192, 480, 3, 10 ** 6])), "tempo": tempo,
            "fmt": draw(st.one_of(st.just(0), st.just(0), st.integers(1, 10 ** 6))),
            "sp_first": draw(st.integers(0, 4)) == 0}


def strat_relations(ctx: Ctx):
    return _relations(ctx)


PARTS: list[Part] = [
    custom_part("small", drive_small, check_case, {"quick": 8, "thorough": 16}),
    hyp_part("relations", strat_relations, check_case, {"quick": 500, "thorough": 25000},
             {"quick": 8, "thorough": 16}),
]
