"""C04 — strum / HOPO / tap state follows the natural-HOPO rule and flags."""
from __future__ import annotations

import random

from hypothesis import strategies as st

from cpverif import spec as S
from cpverif import strategies as G
from cpverif import trackcheck as T
from cpverif.core import Ctx, Part, custom_part, hyp_part
from cpverif.model import expected_notes, hopo_threshold

RULE = (
    "part table: per resolution a COMPLETE decision table: threshold thr = nearest integer to res/3; "
    "distances {thr-1, thr, thr+1, 1, 2*thr+1, 10*res} (>= 1); all 32x32 ordered (previous, current) "
    "lane combinations (open included) realised by a de Bruijn sequence of 1025 notes; (tap, forced) in "
    "{0,1}^2 on every non-first note: up to 24 tracks x 1025 notes per resolution. Quick resolutions "
    "{1..13, 47, 96, 100, 191, 192, 193, 480, 960}; thorough adds 200 more (PRNG seeded by VERIF_SEED, "
    "up to 10^6). part random: Hypothesis tracks at random resolutions with gaps concentrated at "
    "thr-1/thr/thr+1, random flags and lane combinations at random positions. Oracle: tap -> TAP; else "
    "first note STRUM; else natural HOPO iff (<= 1 lane) and (note != previous) and (gap <= thr); forced "
    "flips natural; sustains (written on the notes in extra table tracks and in the random part) must not "
    "matter: distance is start to start. Non-trivial iff the gap is in {thr-1, thr, thr+1} or forced or a chord is involved; "
    "distinct key = (res, gap-thr, previous, current, flags), counted by construction in the table."
    ' Also: a lane line repeated verbatim inside its tick group.'
)
ASSUMPTIONS = [
    "a forced flag is never placed on the first note of a track (documented ValueError)",
    "threshold = (2*res+3)//6, the nearest integer to res/3 (res/3 is never a tie)",
]
HEADER = "ExpertSingle"
TEMPO = [[0, 120000]]
QUICK_RES = list(range(1, 14)) + [47, 96, 100, 191, 192, 193, 480, 960]


def _de_bruijn(k: int, n: int) -> list[int]:
    a = [0] * (k * n)
    seq: list[int] = []

    def db(t, p):
        if t > n:
            if n % p == 0:
                seq.extend(a[1:p + 1])
        else:
            a[t] = a[t - p]
            db(t + 1, p)
            for j in range(a[t - p] + 1, k):
                a[t] = j
                db(t + 1, t)

    db(1, 1)
    return seq


_SEQ = None


def _pair_sequence() -> list[int]:
    global _SEQ
    if _SEQ is None:
        s = _de_bruijn(32, 2)
        s = s + s[:1]
        pairs = {(a, b) for a, b in zip(s, s[1:])}
        assert len(s) == 1025 and len(pairs) == 1024
        _SEQ = s
    return _SEQ


def distances(res: int) -> list[int]:
    thr = hopo_threshold(res)
    out = []
    for d in (thr - 1, thr, thr + 1, 1, 2 * thr + 1, 10 * res):
        if d >= 1 and d not in out:
            out.append(d)
    return out


def check_table(ctx: Ctx, case) -> None:
    """case: {"res", "d", "tap", "forced"}; the track is the de Bruijn sequence at spacing d."""
    res, d, tap, forced = case["res"], case["d"], case["tap"], case["forced"]
    smode = case.get("sustain", 0)
    thr0 = hopo_threshold(res)
    # sustains must not influence the rule (distance is start to start): mode 1 ends each note one
    # tick before the next start, mode 2 lets it overlap the next note by a threshold
    sus = 0 if smode == 0 else max(d - 1, 0) if smode == 1 else d + thr0 + 1
    seq = _pair_sequence()
    items = []
    for i, mask in enumerate(seq):
        items += G.render_note_items(i * d, mask, [sus] * 5 if mask else sus,
                                     0 if tap and i > 0 else None, 0 if forced and i > 0 else None)
    exp = expected_notes(res, items)
    rc = case
    lines = [S.track_line(it) for it in items]
    chart, tr = T.parse_track(ctx, res, TEMPO, lines, S.HEADER_LIST[(res * 7 + d + 2 * tap + forced + smode) % 40], rc,
                              fmt=(res * 31 + d) if (res + d + tap) % 4 == 0 else 0)
    if tr is None:
        return
    T.compare_notes(ctx, tr, exp, rc, {"ticks", "hopo"})
    thr = hopo_threshold(res)
    near = abs(d - thr) <= 1
    # 1024 ordered pairs, each distinct by construction; non-trivial: near threshold, forced, or a chord
    if near or forced:
        nt = 1024
    else:
        nt = sum(1 for a, b in zip(seq, seq[1:]) if bin(a).count("1") > 1 or bin(b).count("1") > 1)
    ctx.note_bulk(1024, nt, classes={f"gap-thr={d - thr}" if abs(d - thr) <= 1 else "gap_far": 1024,
                                     f"flags_t{tap}f{forced}": 1024, f"sustain_mode_{smode}": 1024},
                  samples=[{"res": res, "thr": thr, "gap": d, "tap": tap, "forced": forced,
                            "lines": lines[2:8],
                            "expected": [[x["tick"], x["hopo"]] for x in exp[1:4]]}])


def table_resolutions(ctx: Ctx) -> list[int]:
    rs = list(QUICK_RES)
    if not ctx.quick:
        rng = random.Random(ctx.seed * 7919 + 13)
        while len(rs) < len(QUICK_RES) + 200:
            r = rng.choice([rng.randint(14, 400), rng.randint(1, 5000), rng.randint(1, 10 ** 6)])
            if r not in rs:
                rs.append(r)
    return rs


def drive_table(ctx: Ctx) -> None:
    cases = []
    for res in table_resolutions(ctx):
        for d in distances(res):
            for tap, forced in ((0, 0), (1, 0), (0, 1), (1, 1)):
                cases.append({"res": res, "d": d, "tap": tap, "forced": forced})
            for smode in (1, 2):
                cases.append({"res": res, "d": d, "tap": 0, "forced": 0, "sustain": smode})
            cases.append({"res": res, "d": d, "tap": 0, "forced": 1, "sustain": 2})
    for i, case in enumerate(cases):
        if i % ctx.nshards != ctx.shard:
            continue
        ctx.current = case
        check_table(ctx, case)
    ctx.exhaustive["table"] = True
    ctx.extra["resolutions"] = len(table_resolutions(ctx))


# ------------------------------------------------------------------------------------------------
@st.composite
def _random_tracks(draw, ctx):
    res = draw(st.one_of(st.sampled_from([192, 480, 96, 100, 1, 2, 4, 5, 7]), st.integers(1, 2000),
                         st.integers(1, 10 ** 6)))
    thr = hopo_threshold(res)
    n = draw(st.integers(2, ctx.pick(25, 80)))
    tick = draw(st.integers(0, 1000))
    items = []
    for i in range(n):
        if i > 0:
            gap = draw(st.one_of(st.sampled_from([thr - 1, thr, thr + 1, thr, thr + 1]),
                                 st.integers(1, 2 * thr + 2), st.integers(1, 12 * res)))
            tick += max(1, gap)
        mask = draw(st.one_of(st.integers(0, 31), st.sampled_from([1, 2, 4, 8, 16, 0])))
        fl = draw(st.integers(0, 7))
        # the length written on a flag line means nothing, whatever it is
        flen = st.sampled_from([0, 0, 0, 1, 37, thr, thr + 1, 10 * res, 10 ** 6])
        tap = draw(flen) if fl in (5, 7) else None
        forced = draw(flen) if fl in (6, 7, 4) and i > 0 else None
        sus = draw(st.one_of(st.just(0), st.just(0), st.sampled_from([1, thr, thr + 1, 2 * thr, 10 * res]),
                             st.integers(0, 3 * thr + 3)))
        lens = [sus] * 5
        if mask and draw(st.integers(0, 3)) == 0:
            lens = [draw(st.sampled_from([0, sus, thr, 1])) for _ in range(5)]
        group = G.render_note_items(tick, mask, lens if mask else sus, tap, forced)
        if mask and len(group) > 1 and draw(st.integers(0, 3)) == 0:
            # flag lines before / between the lane lines (any line order within a lane note's tick)
            group = list(draw(st.permutations(group)))
        if mask and draw(st.integers(0, 7)) == 0:
            # a lane line written twice, verbatim (the tick names the same lanes as before)
            lane_lines = [g for g in group if g[1] == "N" and g[2] <= 4]
            dup = list(draw(st.sampled_from(lane_lines)))
            group.insert(draw(st.integers(0, len(group))), dup)
        items += group
    # the rule is about ticks, not time: tempo changes in the middle of the track must not matter
    tempo = [[0, draw(st.sampled_from([120000, 60000, 250000, 1000]))]]
    if draw(st.booleans()):
        tempo.append([draw(st.integers(1, max(2, tick))), draw(st.sampled_from([30000, 480000, 120001]))])
    # star-power phrases and track events between the notes (other event kinds must not matter)
    extra = []
    for _ in range(draw(st.integers(0, 3))):
        t = draw(st.integers(0, max(1, tick)))
        extra.append([t, "S", 2, draw(st.integers(0, 4 * res))] if draw(st.booleans()) else [t, "E", "solo"])
    if extra:
        sp = sorted([e for e in extra if e[1] == "S"], key=lambda e: e[0])
        te = sorted([e for e in extra if e[1] == "E"], key=lambda e: e[0])
        merged = sorted([(it[0], 0, k, it) for k, it in enumerate(items)]
                        + [(it[0], 1, k, it) for k, it in enumerate(sp)]
                        + [(it[0], 2, k, it) for k, it in enumerate(te)], key=lambda x: (x[0], x[1], x[2]))
        items = [x[3] for x in merged]
    lifted = G.lift_items(draw, items, res, allow64=res >= 960)
    if lifted:
        items, tempo, _ = lifted
    return {"res": res, "items": items, "tempo": tempo, "header": draw(st.sampled_from(S.HEADER_LIST)),
            "fmt": draw(st.one_of(st.just(0), st.just(0), st.integers(1, 10 ** 6)))}


def strat_random(ctx: Ctx):
    return _random_tracks(ctx)


def check_random(ctx: Ctx, case) -> None:
    res, items = case["res"], case["items"]
    exp = expected_notes(res, items)
    lines = [S.track_line(it) for it in items]
    chart, tr = T.parse_track(ctx, res, case.get("tempo", TEMPO), lines, case.get("header", HEADER), case,
                              fmt=case.get("fmt", 0))
    if tr is None:
        return
    T.compare_notes(ctx, tr, exp, case, {"ticks", "hopo"})
    thr = hopo_threshold(res)
    for a, b in zip(exp, exp[1:]):
        gap = b["tick"] - a["tick"]
        near = abs(gap - thr) <= 1
        chord = sum(a["value"]) > 1 or sum(b["value"]) > 1
        key = [res, gap - thr if near else ("far+" if gap > thr else "far-"), list(a["value"]),
               list(b["value"]), b["tap"], b["forced"]]
        ctx.note(key, nontrivial=near or b["forced"] or chord,
                 classes=["near_thr" if near else "far", f"hopo_{b['hopo']}"],
                 sample={"res": res, "thr": thr, "prev": [a["tick"], list(a["value"])],
                         "cur": [b["tick"], list(b["value"]), b["tap"], b["forced"]],
                         "expected": b["hopo"]})


PARTS: list[Part] = [
    custom_part("table", drive_table, check_table, {"quick": 12, "thorough": 16}),
    hyp_part("random", strat_random, check_random, {"quick": 250, "thorough": 4000},
             {"quick": 4, "thorough": 16}),
]
