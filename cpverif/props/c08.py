"""C08 — tempo, time-signature and anchor lines decode to exact values."""
from __future__ import annotations

import random
from datetime import timedelta
from fractions import Fraction

from hypothesis import strategies as st

from cpverif import core
from cpverif import spec as S
from cpverif.core import Ctx, Part, custom_part, enum_part, h64, hyp_part
from cpverif.lib import L

RULE = (
    "bpm_range: every integer n of a contiguous range (quick 1..300000, thorough 1..10^7) is written as "
    "'<tick> = B <n>' and decoded through the public BPMEvent.ParsedData.from_chart_line + "
    "BPMEvent.from_parsed_data; oracle bpm == n/1000 (int/int true division is correctly rounded, "
    "cross-checked against Fraction on every 997th value); each n is one distinct case, non-trivial "
    "iff n is not a multiple of 1000 (a fraction is really decoded). bpm_random: n drawn log-uniformly "
    "up to 10^15 from a PRNG seeded by VERIF_SEED, with leading-zero variants. ts_anchor: all (u,l) of "
    "a grid plus random big u, anchors at random microsecond values up to 10^15; non-trivial iff l "
    "present or value >= 10^6. lines/e2e: Hypothesis-generated padded lines with long digit strings and "
    "whole charts parsed with Chart.from_file; non-trivial iff >= 2 kinds of sync line with a "
    "non-multiple-of-1000 tempo."
    ' A quarter of the whole-chart cases have junk, blank and foreign lines between the sync lines.'
)
ASSUMPTIONS = [
    "n/1000 computed by CPython int/int true division is the float nearest to the rational n/1000",
    "B values are bounded by 10^300 (beyond float range there is no nearest float); anchors by the "
    "timedelta range; tick and TS digit strings up to 1000 digits (int() limit is 4300)",
    "padding is limited to ASCII blank and tab",
]

SIG_SPLIT = "bpm-split-decode-rejects-or-misrounds"


def _split_decode_differs(n: int) -> bool:
    """Signature predicate of the historical defect: whole + thousandths/1000 != n/1000."""
    s = str(n)
    whole = int(s[:-3]) if s[:-3] else 0
    return whole + int(s[-3:]) / 1000 != n / 1000


def _decode_bpm(digits: str, tick: int = 0, res: int = 192):
    data = L.BPMEvent.ParsedData.from_chart_line(f"{tick} = B {digits}")
    return L.BPMEvent.from_parsed_data(data, None, res)


def check_bpm_range(ctx: Ctx, case) -> None:
    """case: {"lo": a, "hi": b} (half-open) or {"n": n} or {"digits": "00123"}."""
    if "digits" in case:
        items = [case["digits"]]
    elif "n" in case:
        items = [str(case["n"])]
    else:
        items = None
    if items is not None:
        for d in items:
            _check_one_bpm(ctx, d)
        return
    lo, hi = case["lo"], case["hi"]
    from_line = L.BPMEvent.ParsedData.from_chart_line
    from_data = L.BPMEvent.from_parsed_data
    nontriv = 0
    for n in range(lo, hi):
        try:
            ev = from_data(from_line(f"0 = B {n}"), None, 192)
            ok = ev.bpm == n / 1000 and ev.tick == 0
        except Exception:  # noqa: BLE001  (located precisely below)
            ok = False
        if not ok:
            _check_one_bpm(ctx, str(n))
        if n % 1000:
            nontriv += 1
        if n % 997 == 0 and Fraction(n / 1000) != Fraction(n, 1000):
            # independent cross-check of the oracle itself: |float - exact| <= half ulp
            import math
            exact = Fraction(n, 1000)
            f = n / 1000
            if abs(Fraction(f) - exact) * 2 > Fraction(math.ulp(f)):
                raise AssertionError(f"oracle n/1000 not nearest float for n={n}")
    ctx.note_bulk(hi - lo, nontriv, classes={"range_values": hi - lo},
                  samples=[{"line": f"0 = B {lo + 118}", "expect_bpm": (lo + 118) / 1000}])


def _check_one_bpm(ctx: Ctx, digits: str) -> None:
    n = int(digits)
    case = {"digits": digits}
    sig = SIG_SPLIT if _split_decode_differs(n) else None
    try:
        ev = _decode_bpm(digits)
    except Exception as e:  # noqa: BLE001
        ctx.fail("bpm-accepted", f"'0 = B {digits}' rejected: {type(e).__name__}: {e}", case, sig)
        return
    if ev.bpm != n / 1000:
        ctx.fail("bpm-exact", f"'0 = B {digits}' decoded to {ev.bpm!r}, nearest float of "
                              f"{n}/1000 is {n / 1000!r}", case, sig)
    if type(ev.bpm) is not float:
        ctx.fail("bpm-exact", f"bpm has type {type(ev.bpm).__name__}", case)
    if ev.tick != 0:
        ctx.fail("bpm-tick", f"tick {ev.tick} != 0", case)


def drive_bpm_range(ctx: Ctx) -> None:
    hi_total = ctx.pick(300_000, 10_000_000)
    chunk = 5_000
    starts = list(range(1, hi_total + 1, chunk))
    for i, lo in enumerate(starts):
        if i % ctx.nshards != ctx.shard:
            continue
        case = {"lo": lo, "hi": min(lo + chunk, hi_total + 1)}
        ctx.current = case
        check_bpm_range(ctx, case)
    ctx.exhaustive["bpm_range"] = True
    ctx.extra["range"] = [1, hi_total]


def check_bpm_random(ctx: Ctx, case) -> None:
    """case: {"rng": seed, "count": k} or {"digits": "..."}; values log-uniform in [1, 10^15]."""
    if "digits" in case:
        _check_one_bpm(ctx, case["digits"])
        ctx.note(case, nontrivial=int(case["digits"]) % 1000 != 0)
        return
    rng = random.Random(case["rng"])
    seen_nt = set()
    n_eval = 0
    for _ in range(case["count"]):
        mag = rng.uniform(0, 15)
        n = max(1, int(10 ** mag))
        if rng.random() < 0.3:
            n = max(1, n - n % 1000 + rng.choice([0, 1, 5, 118, 499, 500, 501, 952, 999]))
        digits = str(n)
        if rng.random() < 0.15:
            digits = "0" * rng.randint(1, 5) + digits
        try:
            ev = _decode_bpm(digits, tick=0)
            ok = ev.bpm == n / 1000
        except Exception:  # noqa: BLE001
            ok = False
        if not ok:
            _check_one_bpm(ctx, digits)
        n_eval += 1
        if n % 1000:
            seen_nt.add(digits)
    ctx.evaluations += n_eval
    ctx.nontrivial.update(h64(d) for d in seen_nt)
    ctx.classes["random_values"] += n_eval
    if len(ctx.samples) < ctx.max_samples and seen_nt:
        d = sorted(seen_nt)[0]
        ctx.samples.append({"line": f"0 = B {d}", "expect_bpm": int(d) / 1000})


def drive_bpm_random(ctx: Ctx) -> None:
    total = ctx.pick(300_000, 12_000_000)
    per = total // ctx.nshards
    case = {"rng": ctx.sub_seed("bpm_random"), "count": per}
    ctx.current = case
    check_bpm_random(ctx, case)


# ------------------------------------------------------------------------------------------------
def _td_parts(us: int):
    days, rem = divmod(us, 86_400_000_000)
    secs, micro = divmod(rem, 1_000_000)
    return days, secs, micro


def _bpm_events():
    ev = L.BPMEvent(tick=0, timestamp=timedelta(0), bpm=120.0)
    return L.BPMEvents(events=[ev], resolution=192)


def check_ts_anchor(ctx: Ctx, case) -> None:
    """case: {"kind": "TS", "u": str, "l": str|None} or {"kind": "A", "us": str}, optional tick."""
    tick_digits = case.get("tick", "0")
    if case["kind"] == "TS":
        u, l = case["u"], case.get("l")
        line = f"{tick_digits} = TS {u}" + (f" {l}" if l is not None else "")
        try:
            data = L.TimeSignatureEvent.ParsedData.from_chart_line(line)
            ev = L.TimeSignatureEvent.from_parsed_data(data, None, _bpm_events()) \
                if int(tick_digits) == 0 else None
        except Exception as e:  # noqa: BLE001
            ctx.fail("ts-accepted", f"{line!r} rejected: {type(e).__name__}: {e}", case)
            return
        want_lower = 2 ** int(l) if l is not None else 4
        if data.tick != int(tick_digits) or data.upper != int(u) or \
                data.lower != (int(l) if l is not None else None):
            ctx.fail("ts-datum", f"{line!r} parsed to tick={data.tick} upper={data.upper} "
                                 f"lower={data.lower}", case)
        if ev is not None and (ev.upper_numeral != int(u) or ev.lower_numeral != want_lower
                               or ev.tick != 0):
            ctx.fail("ts-exact", f"{line!r} decoded to {ev.upper_numeral}/{ev.lower_numeral}, "
                                 f"expected {int(u)}/{want_lower}", case)
        ctx.note(case, nontrivial=l is not None or len(u) > 2,
                 classes=["ts_with_l" if l is not None else "ts_short"])
    else:
        us = case["us"]
        line = f"{tick_digits} = A {us}"
        try:
            data = L.AnchorEvent.ParsedData.from_chart_line(line)
            ev = L.AnchorEvent.from_parsed_data(data)
        except Exception as e:  # noqa: BLE001
            ctx.fail("anchor-accepted", f"{line!r} rejected: {type(e).__name__}: {e}", case)
            return
        got = (ev.timestamp.days, ev.timestamp.seconds, ev.timestamp.microseconds)
        if got != _td_parts(int(us)) or ev.tick != int(tick_digits):
            ctx.fail("anchor-exact", f"{line!r} decoded to tick {ev.tick} time {got}, expected "
                                     f"{_td_parts(int(us))}", case)
        ctx.note(case, nontrivial=int(us) >= 10 ** 6 and int(us) % 10 ** 6 != 0, classes=["anchor"])


def drive_ts_anchor(ctx: Ctx) -> None:
    rng = random.Random(ctx.sub_seed("ts_anchor"))
    cases = []
    umax = ctx.pick(300, 3000)
    for u in range(0, umax):
        cases.append({"kind": "TS", "u": str(u), "l": None})
        for l in range(0, 17):
            cases.append({"kind": "TS", "u": str(u), "l": str(l)})
    for l in range(17, 64):
        cases.append({"kind": "TS", "u": "4", "l": str(l)})
    for _ in range(ctx.pick(2000, 40000)):
        u = int(10 ** rng.uniform(0, 30))
        l = rng.choice([None] + list(range(0, 17)))
        cases.append({"kind": "TS", "u": str(u), "l": None if l is None else str(l)})
    for _ in range(ctx.pick(20000, 400000)):
        us = int(10 ** rng.uniform(0, 15)) - 1
        d = str(us)
        if rng.random() < 0.1:
            d = "0" * rng.randint(1, 4) + d
        cases.append({"kind": "A", "us": d, "tick": str(int(10 ** rng.uniform(0, 12)) - 1)})
    for us in (0, 1, 999_999, 1_000_000, 86_399_999_999, 86_400_000_000, 10 ** 15, 2 ** 53 + 1):
        cases.append({"kind": "A", "us": str(us)})
    for i, case in enumerate(cases):
        if i % ctx.nshards != ctx.shard:
            continue
        ctx.current = case
        check_ts_anchor(ctx, case)
    ctx.exhaustive["ts_grid"] = True


# ------------------------------------------------------------------------------------------------
from cpverif import strategies as G  # noqa: E402
_PAD = st.sampled_from(["", "", " ", "  ", "\t", " \t "])


def _digits(max_len=40, allow_zero=True):
    body = st.text(alphabet="0123456789", min_size=1, max_size=max_len)
    big = st.integers(min_value=0, max_value=10 ** 12).map(str)
    lead = st.builds(lambda z, d: "0" * z + d, st.integers(0, 4), big)
    s = st.one_of(big, lead, body)
    return s if allow_zero else s.filter(lambda d: int(d) != 0)


def strat_lines(ctx: Ctx):
    long_digits = st.integers(1, ctx.pick(300, 1000)).flatmap(
        lambda k: st.text(alphabet="0123456789", min_size=k, max_size=k))
    tick = st.one_of(_digits(), long_digits)
    b = st.builds(lambda lp, t, n, rp: {"kind": "B", "lp": lp, "tick": t, "v": n, "rp": rp},
                  _PAD, tick, st.one_of(_digits(allow_zero=False),
                                        st.text(alphabet="0123456789", min_size=1, max_size=300)
                                        .filter(lambda d: int(d) != 0)), _PAD)
    ts = st.builds(lambda lp, t, u, l, rp: {"kind": "TS", "lp": lp, "tick": t, "v": u, "l": l, "rp": rp},
                   _PAD, tick, st.one_of(_digits(), long_digits),
                   st.one_of(st.none(), st.integers(0, 16).map(str),
                             st.integers(0, 16).map(lambda x: "0" + str(x))), _PAD)
    a = st.builds(lambda lp, t, us: {"kind": "A", "lp": lp, "tick": t, "v": us, "rp": ""},
                  _PAD, tick, st.integers(0, 10 ** 18).map(str))
    return st.one_of(b, ts, a)


def check_lines(ctx: Ctx, case) -> None:
    kind, t, v = case["kind"], case["tick"], case["v"]
    if kind == "B":
        line = f"{case['lp']}{t} = B {v}{case['rp']}"
        try:
            data = L.BPMEvent.ParsedData.from_chart_line(line)
            ev = L.BPMEvent.from_parsed_data(data, None, 192)
        except Exception as e:  # noqa: BLE001
            sig = SIG_SPLIT if _split_decode_differs(int(v)) else None
            ctx.fail("line-bpm", f"{line!r} rejected: {type(e).__name__}: {e}", case, sig)
            return
        if data.tick != int(t) or ev.tick != int(t):
            ctx.fail("line-bpm", f"{line!r}: tick {data.tick} != {int(t)}", case)
        if ev.bpm != int(v) / 1000:
            sig = SIG_SPLIT if _split_decode_differs(int(v)) else None
            ctx.fail("line-bpm", f"{line!r}: bpm {ev.bpm!r} != {int(v) / 1000!r}", case, sig)
    elif kind == "TS":
        l = case["l"]
        line = f"{case['lp']}{t} = TS {v}" + (f" {l}" if l is not None else "") + case["rp"]
        try:
            data = L.TimeSignatureEvent.ParsedData.from_chart_line(line)
        except Exception as e:  # noqa: BLE001
            ctx.fail("line-ts", f"{line!r} rejected: {type(e).__name__}: {e}", case)
            return
        if data.tick != int(t) or data.upper != int(v) or \
                data.lower != (None if l is None else int(l)):
            ctx.fail("line-ts", f"{line!r} parsed to {data.tick},{data.upper},{data.lower}", case)
    else:
        line = f"{case['lp']}{t} = A {v}"
        try:
            data = L.AnchorEvent.ParsedData.from_chart_line(line)
            ev = L.AnchorEvent.from_parsed_data(data)
        except Exception as e:  # noqa: BLE001
            ctx.fail("line-anchor", f"{line!r} rejected: {type(e).__name__}: {e}", case)
            return
        got = (ev.timestamp.days, ev.timestamp.seconds, ev.timestamp.microseconds)
        if ev.tick != int(t) or got != _td_parts(int(v)):
            ctx.fail("line-anchor", f"{line!r} decoded to tick {ev.tick}, {got}", case)
    ctx.note(case, nontrivial=len(t) >= 5 or bool(case["lp"]) or bool(case["rp"]) or len(v) >= 7,
             classes=[f"line_{kind}", "long_tick" if len(t) > 20 else "short_tick"])


# ------------------------------------------------------------------------------------------------
def strat_e2e(ctx: Ctx):
    n_val = st.one_of(
        st.integers(20_000, 400_000), st.integers(1, 999), st.integers(1000, 40_000),
        st.integers(0, 9).flatmap(lambda k: st.integers(10 ** k, 10 ** (k + 1))),
        st.sampled_from([1, 999, 1000, 1118, 20548, 21952, 31952, 10 ** 9 - 1, 10 ** 9]))
    tempo = st.lists(st.tuples(st.integers(1, 50), n_val), min_size=1, max_size=ctx.pick(12, 40))
    tsig = st.lists(st.tuples(st.integers(0, 60), st.integers(0, 200),
                              st.one_of(st.none(), st.integers(0, 16))), min_size=0, max_size=8)
    anchors = st.lists(st.tuples(st.integers(0, 3000), st.integers(0, 10 ** 12)), max_size=6)
    song = st.lists(st.sampled_from([["Offset", "5"], ["Offset", "120"], ["Offset", "0"], ["Name", '"x"'],
                                     ["PreviewStart", "30"], ["Difficulty", "4"], ["Player2", "rhythm"]]),
                    max_size=3, unique_by=lambda x: x[0])
    return st.builds(lambda res, tempo, tsig, anchors, ts0, song, big: {
        "res": res, "tempo": [list(x) for x in tempo], "tsig": [list(x) for x in tsig],
        "anchors": [list(x) for x in anchors], "ts0": list(ts0), "song": song, "big": big},
        st.sampled_from([192, 480, 96, 100, 1, 7, 960]), tempo, tsig, anchors,
        st.tuples(st.integers(0, 64), st.one_of(st.none(), st.integers(0, 16))), song,
        st.sampled_from([0, 0, 0, 0, 1, 2, 3, 4, 5, 6, 7, 8]))


# tick offsets around the widths of machine integers (a tick has "any digit count"): index = case["big"]
_BIG = [0, 2 ** 31 - 25, 2 ** 32 - 25, 2 ** 32, 2 ** 33 + 1, 2 ** 63 - 25, 2 ** 64 - 25, 2 ** 64, 10 ** 20]


def check_e2e(ctx: Ctx, case) -> None:
    sync = []
    t = 0
    bpms = []
    big = case.get("big", 0)
    off = _BIG[big]
    res = case["res"]
    if big:
        # everything behind the first tempo event moves up by ``off`` ticks; tempos (and the resolution)
        # are made fast enough for the times to stay inside the timedelta range
        res = max(res, 96) if big <= 4 else 960
        case = dict(case, res=res)
    for i, (gap, n) in enumerate(case["tempo"]):
        t = 0 if i == 0 else t + gap
        if big:
            n = max(n, 10 ** 6) if big <= 4 else 10 ** 9 - n % 7
        if i and gap % 5 == 0:
            n = bpms[-1][1]            # a tempo line that restates the tempo in force is an event all the same
        bpms.append((t + (off if i else 0), n))
    tss = [(0, case["ts0"][0], case["ts0"][1])]
    tt = 0
    for gap, u, l in case["tsig"]:
        tt += gap
        if u % 7 == 0:
            u, l = tss[-1][1], tss[-1][2]      # the signature in force, written again
        tss.append((tt + (off if len(tss) > 1 else 0), u, l))
    anchors = sorted((a[0] + (off if k % 2 else 0), a[1]) for k, a in enumerate(case["anchors"]))
    # as in real charts: anchors ON tempo changes whose literal time is what the tempo map says for that
    # tick, or a few microseconds next to it (an anchor is decoded verbatim whatever the map says)
    if len(bpms) > 1 and case["anchors"] and case["anchors"][0][1] % 2 == 0:
        from cpverif.model import TempoModel
        tm = TempoModel(res, bpms)
        near = []
        for j, (tk, _) in enumerate(bpms[1:4]):
            exact = tm.exact_us(tk)
            d = [0, -1, 1, -2, 2, 7, -500, 999][(case["anchors"][0][1] // 2 + j) % 8]
            for base in {int(exact), int(exact) + 1, round(exact)}:
                near.append((tk, max(0, base + d)))
        anchors = sorted(set(anchors + near))
    merged = [(tk, 0, ["TS", u, l]) for tk, u, l in tss] + [(tk, 1, ["B", n]) for tk, n in bpms] + \
             [(tk, 2, ["A", us]) for tk, us in anchors]
    merged.sort(key=lambda x: (x[0], x[1]))
    for tk, _, payload in merged:
        sync.append([tk] + payload)
    spec = {"res": case["res"], "sync": sync, "events": [], "tracks": {}}
    if case.get("song"):
        # unrelated [Song] fields (Offset!) and an instrument section ride along
        spec["song"] = [list(x) for x in case["song"]] + [["Resolution", str(case["res"])]]
        spec["tracks"] = {"ExpertSingle": [[0, "N", 0, 0]]}
    text = S.render(spec)
    k = core.h64(text)
    if k % 4 == 0 and len(sync) >= 2:
        # lines that are no sync lines (junk, lines of other sections, blank lines) between the sync lines: every
        # B / TS / A line is still decoded, whatever stands before it
        junk = ["garbage", "", "  ", "// tempo map", '0 = E "section x"', "0 = N 0 0", "0 = B", "0 = TS", "B 120000",
                "0 = A", "0 = H 1 2"]
        body = [S.sync_line(x) for x in sync]
        out = []
        for i, ln in enumerate(body):
            if (k >> (3 + i % 40)) & 3 == 0:
                for j in range(1 + (k >> (7 + i % 30)) % 3):
                    out.append(junk[(k >> (11 + (i + j) % 20)) % len(junk)])
            out.append(ln)
        text = text.replace("".join("  " + ln + "\n" for ln in body), "".join("  " + ln + "\n" for ln in out), 1)
        ctx.classes["e2e_junk_between_sync_lines"] += 1
    excluded = [n for _, n in bpms if _split_decode_differs(n)]
    try:
        chart = L.parse(text)
    except Exception as e:  # noqa: BLE001
        ctx.fail("e2e-parse", f"well-formed sync section rejected: {type(e).__name__}: {e}",
                 {"case": case, "text": text}, SIG_SPLIT if excluded else None)
        ctx.note(case)
        return
    st_ = chart.sync_track
    got_b = [(e.tick, e.bpm) for e in st_.bpm_events]
    want_b = [(tk, n / 1000) for tk, n in bpms]
    if got_b != want_b:
        ctx.fail("e2e-bpm", f"bpm events {got_b} != {want_b}", {"case": case, "text": text},
                 SIG_SPLIT if excluded else None)
    got_ts = [(e.tick, e.upper_numeral, e.lower_numeral) for e in st_.time_signature_events]
    want_ts = [(tk, u, 4 if l is None else 2 ** l) for tk, u, l in tss]
    if got_ts != want_ts:
        ctx.fail("e2e-ts", f"time signatures {got_ts} != {want_ts}", {"case": case, "text": text})
    got_a = [(e.tick, (e.timestamp.days, e.timestamp.seconds, e.timestamp.microseconds))
             for e in st_.anchor_events]
    want_a = [(tk, _td_parts(us)) for tk, us in anchors]
    if got_a != want_a:
        ctx.fail("e2e-anchor", f"anchors {got_a} != {want_a}", {"case": case, "text": text})
    kinds = (len(bpms) > 1) + (len(tss) > 1) + (len(anchors) > 0)
    ctx.note(case, nontrivial=kinds >= 2 and any(n % 1000 for _, n in bpms),
             classes=[f"kinds_{kinds}", f"tempo_events_{min(len(bpms), 10)}"])


def long_cases(ctx: Ctx):
    """Lines longer than any plausible line buffer or length guard (2^16 characters and beyond)."""
    for pad in G.HUGE_PADS:
        for lp, rp in ((pad, ""), ("", pad), (pad, pad[:66000])):
            yield {"kind": "B", "lp": lp, "tick": "768", "v": "90500", "rp": rp}
            yield {"kind": "TS", "lp": lp, "tick": "768", "v": "6", "l": "3", "rp": rp}
            yield {"kind": "TS", "lp": lp, "tick": "768", "v": "3", "l": None, "rp": rp}
        yield {"kind": "A", "lp": pad, "tick": "768", "v": "2000000", "rp": ""}
    big = "7" * 4000
    yield {"kind": "B", "lp": "  ", "tick": big, "v": "120000", "rp": ""}
    yield {"kind": "TS", "lp": "  ", "tick": big, "v": big, "l": "2", "rp": ""}


PARTS: list[Part] = [
    enum_part("long", long_cases, check_lines, {"quick": 2, "thorough": 2}),
    custom_part("bpm_range", drive_bpm_range, check_bpm_range, {"quick": 8, "thorough": 16}),
    custom_part("bpm_random", drive_bpm_random, check_bpm_random, {"quick": 4, "thorough": 16}),
    custom_part("ts_anchor", drive_ts_anchor, check_ts_anchor, {"quick": 2, "thorough": 8}),
    hyp_part("lines", strat_lines, check_lines, {"quick": 1500, "thorough": 20000},
             {"quick": 2, "thorough": 16}),
    hyp_part("e2e", strat_e2e, check_e2e, {"quick": 500, "thorough": 10000},
             {"quick": 6, "thorough": 16}),
]
