"""Chart model (plain JSON-able data) and renderer to .chart text.

A *spec* is a dict:

    {"res": 192,
     "song": [["Name", "text"], ...]            optional extra [Song] fields (PascalCase, raw value text
                                                 as written after " = ", quotes included)
     "sync": [[tick, "B", n] | [tick, "TS", u] | [tick, "TS", u, l] | [tick, "A", us], ...]
     "events": [[tick, text], ...]              global events, text is what goes between the quotes
     "tracks": {"ExpertSingle": [[tick, "N", idx, len] | [tick, "S", idx, len] | [tick, "E", word], ...]}
     "raw_sections": [[name, [raw body lines]], ...]     optional unknown / hand-made sections
     "order": [section names]                   optional explicit section order
    }

Lines inside a section are rendered in list order (the generators are responsible for producing
Moonscraper order: sorted by tick, lane lines before flag lines).  Only the model -> text
direction exists; oracles are computed from the model, never by re-parsing.
"""
from __future__ import annotations

import typing as typ

DIFFICULTIES = [("EASY", "Easy"), ("MEDIUM", "Medium"), ("HARD", "Hard"), ("EXPERT", "Expert")]
INSTRUMENTS = [
    ("GUITAR", "Single"), ("GUITAR_COOP", "DoubleGuitar"), ("BASS", "DoubleBass"),
    ("RHYTHM", "DoubleRhythm"), ("KEYS", "Keyboard"), ("DRUMS", "Drums"),
    ("GHL_GUITAR", "GHLGuitar"), ("GHL_BASS", "GHLBass"), ("GHL_COOP", "GHLCoop"),
    ("GHL_RHYTHM", "GHLRhythm"),
]
# header text -> (Instrument member name, Difficulty member name); hard-coded from the format
# documentation, deliberately NOT derived from the enums of the code under test.
HEADERS: dict[str, tuple[str, str]] = {
    d_txt + i_txt: (i_name, d_name) for d_name, d_txt in DIFFICULTIES for i_name, i_txt in INSTRUMENTS
}
HEADER_LIST = list(HEADERS)
assert len(HEADER_LIST) == 40
REQUIRED = ["Song", "SyncTrack", "Events"]


def sync_line(item) -> str:
    tick, kind = item[0], item[1]
    if kind == "B":
        return f"{tick} = B {item[2]}"
    if kind == "TS":
        if len(item) > 3 and item[3] is not None:
            return f"{tick} = TS {item[2]} {item[3]}"
        return f"{tick} = TS {item[2]}"
    if kind == "A":
        return f"{tick} = A {item[2]}"
    raise ValueError(item)


def event_line(item) -> str:
    return f'{item[0]} = E "{item[1]}"'


def track_line(item) -> str:
    tick, kind = item[0], item[1]
    if kind in ("N", "S"):
        return f"{tick} = {kind} {item[2]} {item[3]}"
    if kind == "E":
        return f"{tick} = E {item[2]}"
    if kind == "RAW":
        return item[2]
    raise ValueError(item)


def song_lines(spec) -> list[str]:
    out = []
    song = spec.get("song")
    have_res = False
    if song:
        for name, raw in song:
            if name == "Resolution":
                have_res = True
            out.append(f"{name} = {raw}")
    if not have_res and spec.get("res") is not None:
        pos = spec.get("res_pos", 0)
        out.insert(min(pos, len(out)), f"Resolution = {spec['res']}")
    return out


def sections_of(spec) -> list[tuple[str, list[str]]]:
    secs: list[tuple[str, list[str]]] = []
    if not spec.get("omit_song"):
        secs.append(("Song", song_lines(spec)))
    if not spec.get("omit_sync"):
        secs.append(("SyncTrack", [sync_line(x) for x in spec.get("sync", [])]))
    if not spec.get("omit_events"):
        secs.append(("Events", [event_line(x) for x in spec.get("events", [])]))
    for name, items in spec.get("tracks", {}).items():
        secs.append((name, [track_line(x) for x in items]))
    for name, body in spec.get("raw_sections", []):
        secs.append((name, list(body)))
    order = spec.get("order")
    if order:
        pos = {n: i for i, n in enumerate(order)}
        secs.sort(key=lambda s: pos.get(s[0], len(pos)))
    return secs


def render_sections(secs: typ.Iterable[tuple[str, list[str]]], newline: str = "\n",
                    indent: str = "  ", final_newline: bool = True) -> str:
    out: list[str] = []
    for name, body in secs:
        out.append(f"[{name}]")
        out.append("{")
        out.extend(indent + line for line in body)
        out.append("}")
    return newline.join(out) + (newline if final_newline else "")


_LP = ["  ", "  ", "\t", "", "    ", " \t", "  "]
_RP = ["", "", " ", "\t", "", "  ", ""]


def format_line(line: str, fmt: int, i: int, section: str = "") -> str:
    """Blank padding around a body line, a deterministic function of (fmt, line index).  fmt == 0 is the
    canonical Moonscraper layout (two blanks, nothing trailing).  Every recogniser of the format is
    written to accept leading blanks/tabs; all but the anchor recogniser accept trailing ones, so anchor
    lines never get trailing padding."""
    if not fmt:
        return "  " + line
    h = (fmt * 2654435761 + i * 40503 + len(section) * 97) & 0xFFFFFFFF
    lp = _LP[(h >> 3) % len(_LP)]
    rp = _RP[(h >> 11) % len(_RP)]
    if " = A " in line:
        rp = ""
    if (h >> 17) % 5 == 0 and line[:1].isdigit():
        line = "0" * (1 + (h >> 20) % 3) + line      # zero-prefixed tick: same integer
    return lp + line + rp


def render(spec, newline: str | None = None, indent: str = "  ") -> str:
    fmt = spec.get("fmt", 0)
    if newline is None:
        newline = spec.get("nl", "\n")
    if not fmt:
        return render_sections(sections_of(spec), newline=newline, indent=indent)
    out: list[str] = []
    for name, body in sections_of(spec):
        out.append(f"[{name}]")
        out.append("{")
        out.extend(format_line(line, fmt, i, name) for i, line in enumerate(body))
        out.append("}")
    return newline.join(out) + newline


def minimal_spec(res: int = 192, bpm_n: int = 120000) -> dict:
    return {"res": res, "sync": [[0, "TS", 4], [0, "B", bpm_n]], "events": [], "tracks": {}}
