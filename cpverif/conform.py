"""Model conformance of a parsed chart with the spec it was rendered from, plus log capture.

``expected_struct(spec)`` is computed from the model only (reference classifier, grouping model,
header table hard-coded in cpverif.spec); ``actual_struct(chart)`` reads public attributes."""
from __future__ import annotations

import contextlib
import logging

from cpverif import spec as S
from cpverif.model import classify_global, expected_notes, td_us
from cpverif.observe import diff_paths
from cpverif.observe import obs_metadata as _obs_metadata
from cpverif.trackcheck import sustain_plain


def expected_metadata(spec) -> dict:
    """All 24 fields as the [Song] lines of the spec say (first line of a field wins; one pair of quotes
    stripped from string values; documented defaults otherwise)."""
    from cpverif.model import FIELDS
    given: dict = {}
    for name, raw in spec.get("song") or []:
        given.setdefault(name, raw)
    out = {}
    for pascal, snake, kind, default in FIELDS:
        if pascal == "Resolution":
            out[snake] = int(given.get(pascal, spec["res"]))
        elif pascal not in given:
            out[snake] = default
        else:
            raw = given[pascal]
            if kind == "int":
                out[snake] = int(raw)
            elif kind == "p2":
                out[snake] = raw.strip('"').upper()
            else:
                out[snake] = raw[1:-1] if len(raw) >= 2 and raw[0] == '"' and raw[-1] == '"' else raw
    return out


def expected_struct(spec) -> dict:
    res = spec["res"]
    out = {"resolution": res, "bpm": [], "ts": [], "anchors": [], "text": [], "section": [],
           "lyric": [], "tracks": {}, "metadata": expected_metadata(spec)}
    for it in spec.get("sync", []):
        if it[1] == "B":
            out["bpm"].append([it[0], it[2] / 1000])
        elif it[1] == "TS":
            l = it[3] if len(it) > 3 else None
            out["ts"].append([it[0], it[2], 4 if l is None else 2 ** l])
        elif it[1] == "A":
            out["anchors"].append([it[0], it[2]])
    for tick, text in spec.get("events", []):
        kind, val = classify_global(text)
        if kind is None:
            raise ValueError("spec contains a global event text outside the specified zone")
        out[kind].append([tick, val])
    for h, items in spec.get("tracks", {}).items():
        notes = [[x["tick"], list(x["value"]), sustain_plain(x["sustain"]), x["hopo"], x["sp"]]
                 for x in expected_notes(res, items)]
        out["tracks"][h] = {
            "instrument": S.HEADERS[h][0], "difficulty": S.HEADERS[h][1],
            "notes": notes,
            "phrases": [[it[0], it[3]] for it in items if it[1] == "S"],
            "tevents": [[it[0], it[2]] for it in items if it[1] == "E"],
        }
    return out


_REV = {v: k for k, v in S.HEADERS.items()}


def actual_struct(chart) -> dict:
    st = chart.sync_track
    g = chart.global_events_track
    out = {
        "resolution": chart.metadata.resolution,
        "bpm": [[e.tick, e.bpm] for e in st.bpm_events],
        "ts": [[e.tick, e.upper_numeral, e.lower_numeral] for e in st.time_signature_events],
        "anchors": [[e.tick, td_us(e.timestamp)] for e in st.anchor_events],
        "text": [[e.tick, e.value] for e in g.text_events],
        "section": [[e.tick, e.value] for e in g.section_events],
        "lyric": [[e.tick, e.value] for e in g.lyric_events],
        "tracks": {},
        "metadata": _obs_metadata(chart.metadata),
    }
    if st.bpm_events.resolution != chart.metadata.resolution:
        out["resolution"] = [chart.metadata.resolution, st.bpm_events.resolution]
    for inst, inner in chart.instrument_tracks.items():
        for diff, tr in inner.items():
            h = _REV.get((inst.name, diff.name), f"?{inst.name}/{diff.name}")
            out["tracks"][h] = {
                "instrument": tr.instrument.name, "difficulty": tr.difficulty.name,
                "notes": [[e.tick, list(e.note.value), sustain_plain(e.sustain), e.hopo_state.name,
                           None if e.star_power_data is None
                           else e.star_power_data.star_power_event_index] for e in tr.note_events],
                "phrases": [[e.tick, e.sustain] for e in tr.star_power_events],
                "tevents": [[e.tick, e.value] for e in tr.track_events],
            }
    return out


def conformance_diff(chart, spec) -> list[str]:
    return diff_paths(expected_struct(spec), actual_struct(chart), limit=5)


class _Collector(logging.Handler):
    def __init__(self):
        super().__init__(level=logging.DEBUG)
        self.records: list[logging.LogRecord] = []

    def emit(self, record):
        if record.levelno >= logging.WARNING:
            self.records.append(record)


@contextlib.contextmanager
def capture_logs(debug: bool = False):
    """Collects every record of level WARNING and above emitted below the 'chartparse' logger while
    active.  ``debug=True`` additionally makes DEBUG logging effective for the package during the block
    (what an application does with logging.basicConfig(level=DEBUG)): parsing must not depend on it."""
    lg = logging.getLogger("chartparse")
    h = _Collector()
    lg.addHandler(h)
    old_level = lg.level
    if debug:
        lg.setLevel(logging.DEBUG)
    try:
        yield h.records
    finally:
        lg.setLevel(old_level)
        lg.removeHandler(h)
        h.records[:] = [r for r in h.records if r.levelno >= logging.WARNING]


def unparsable_texts(records) -> list[str]:
    """The line texts reported by 'unparsable line: "<line>" for types [...]' warnings."""
    out = []
    for r in records:
        msg = r.getMessage()
        if msg.startswith('unparsable line: "'):
            body = msg[len('unparsable line: "'):]
            idx = body.rfind('" for types ')
            out.append(body[:idx] if idx >= 0 else body)
    return out


def unhandled_sections(records) -> list[str]:
    out = []
    pre = "unhandled data section titled '"
    for r in records:
        msg = r.getMessage()
        if msg.startswith(pre) and msg.endswith("'"):
            out.append(msg[len(pre):-1])
    return out


def reports_match(records, texts: list[str], logger_prefix: str = "chartparse") -> str | None:
    """Wording-independent accounting of log reports: exactly one record per reported text.

    ``records`` are the captured records (already restricted by the caller to the relevant kind),
    ``texts`` the multiset of strings that must each be reported once.  Returns None when the
    accounting works out, else an explanation.  A record "reports" a text when its formatted message
    contains the text (blank texts are only counted).  Robust against rewording of the messages."""
    if len(records) != len(texts):
        return f"{len(texts)} reports expected, {len(records)} log records"
    msgs = [r.getMessage() for r in records]
    from collections import Counter
    for t, mult in Counter(texts).items():
        if not t.strip():
            continue
        n = sum(1 for m in msgs if t in m)
        if n < mult:
            return f"{t!r} should be reported {mult}x but only {n} record(s) mention it"
    return None


def records_of(records, logger_name: str):
    import logging as _l
    return [r for r in records if r.name == logger_name and r.levelno >= _l.WARNING]

