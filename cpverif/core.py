"""Shared runner machinery: context, violation type, Hypothesis / enumeration drivers, sharding.

Every property module (cpverif/props/cNN.py) exposes

    PARTS        list[Part]       the independent pieces of exploration of that property
    RULE         str              how cases are generated and what "non-trivial" means
    ASSUMPTIONS  list[str]

A Part owns a *checker* ``check(ctx, case)`` taking a JSON-able case (this is what a replay file
stores, so a replay never needs Hypothesis) and a *driver* that feeds it generated or enumerated
cases.  The checker calls ``ctx.note(...)`` to classify the case and ``ctx.fail(...)`` (raises
Violation) when the oracle disagrees with the code under test.
"""
from __future__ import annotations

import dataclasses
import hashlib
import json
import os
import sys
import time
import traceback
import typing as typ
from collections import Counter

REPO = os.path.abspath(os.environ.get("CPV_REPO", "/repo"))
VERIF = os.path.dirname(os.path.dirname(os.path.abspath(__file__)))
KNOWN_FINDINGS_FILE = os.path.join(VERIF, "KNOWN_FINDINGS.txt")


# --------------------------------------------------------------------------------------------
# importing the code under test (always from the *current* working tree, never installed copy)
# --------------------------------------------------------------------------------------------
_lib_loaded = False


def load_lib() -> None:
    """Import chartparse from CPV_REPO; silence its stderr logging (records are captured by
    handlers the checks install themselves)."""
    global _lib_loaded
    if _lib_loaded:
        return
    import logging

    if sys.path[0] != REPO:
        sys.path.insert(0, REPO)
    import chartparse.chart  # noqa: F401  (chart first: historical import-order defect, see C20)
    import chartparse.globalevents  # noqa: F401
    import chartparse.instrument  # noqa: F401
    import chartparse.metadata  # noqa: F401
    import chartparse.sync  # noqa: F401
    import chartparse.track  # noqa: F401

    mod_file = os.path.abspath(chartparse.chart.__file__)
    if not mod_file.startswith(REPO + os.sep):
        raise HarnessError(f"chartparse imported from {mod_file}, expected under {REPO}")
    lg = logging.getLogger("chartparse")
    lg.propagate = False
    lg.addHandler(logging.NullHandler())
    _lib_loaded = True


def work_dir() -> str:
    """Scratch directory of the current run (created by the runner, removed when the run ends)."""
    d = os.environ.get("CPV_WORKDIR") or os.path.join(VERIF, ".work", f"adhoc_{os.getpid()}")
    os.makedirs(d, exist_ok=True)
    return d


class HarnessError(Exception):
    """Something is wrong with the harness or environment (exit 2, never a VIOLATION)."""


class _ShrinkBudgetUsedUp(BaseException):
    """Raised inside a Hypothesis test to end shrinking (BaseException: Hypothesis lets it through)."""


class Violation(Exception):
    def __init__(self, check: str, message: str, case: typ.Any = None, signature: str | None = None):
        super().__init__(f"[{check}] {message}")
        self.check = check
        self.message = message
        self.case = case
        self.signature = signature
        self.drawn = None


# --------------------------------------------------------------------------------------------
# known findings (read-only at run time)
# --------------------------------------------------------------------------------------------
def load_known_findings() -> dict[str, dict[str, str]]:
    """Returns {property_id: {signature: description}} for *open* findings only.

    File format, one entry per line:
        open: property=C08 signature=<sig> <description>
        fixed: property=C08 <commit> <what failed>       (documentation; suppresses nothing)
    """
    out: dict[str, dict[str, str]] = {}
    try:
        with open(KNOWN_FINDINGS_FILE, encoding="utf-8") as f:
            for line in f:
                line = line.strip()
                if not line.startswith("open:"):
                    continue
                fields = line[len("open:"):].split()
                kv = dict(x.split("=", 1) for x in fields[:2] if "=" in x)
                if "property" in kv and "signature" in kv:
                    out.setdefault(kv["property"], {})[kv["signature"]] = " ".join(fields[2:])
    except FileNotFoundError:
        pass
    return out


# --------------------------------------------------------------------------------------------
# helpers
# --------------------------------------------------------------------------------------------
def h64(obj: typ.Any) -> int:
    if not isinstance(obj, (str, bytes)):
        obj = json.dumps(obj, sort_keys=True, default=repr, ensure_ascii=True)
    if isinstance(obj, str):
        obj = obj.encode("utf-8", "surrogatepass")
    return int.from_bytes(hashlib.blake2b(obj, digest_size=8).digest(), "big")


def derive_seed(*parts: typ.Any) -> int:
    return h64(":".join(str(p) for p in parts)) % (2**62)


def abbrev(obj: typ.Any, maxstr: int = 400, maxlist: int = 24, depth: int = 0) -> typ.Any:
    """Shorten a case for the evidence file (samples are for reading, replays keep the full case)."""
    if isinstance(obj, str):
        return obj if len(obj) <= maxstr else obj[:maxstr] + f"...(+{len(obj) - maxstr} chars)"
    if isinstance(obj, (int, float, bool)) or obj is None:
        return obj
    if isinstance(obj, dict):
        items = list(obj.items())
        out = {str(k): abbrev(v, maxstr, maxlist, depth + 1) for k, v in items[:maxlist]}
        if len(items) > maxlist:
            out["..."] = f"+{len(items) - maxlist} keys"
        return out
    if isinstance(obj, (list, tuple)):
        out_l = [abbrev(v, maxstr, maxlist, depth + 1) for v in obj[:maxlist]]
        if len(obj) > maxlist:
            out_l.append(f"...(+{len(obj) - maxlist} items)")
        return out_l
    return repr(obj)[:maxstr]


def tb_touches_lib(tb) -> bool:
    lib = os.path.join(REPO, "chartparse") + os.sep
    for fs in traceback.extract_tb(tb):
        if os.path.abspath(fs.filename).startswith(lib):
            return True
    return False


# --------------------------------------------------------------------------------------------
# context handed to checkers
# --------------------------------------------------------------------------------------------
class Ctx:
    def __init__(self, prop: str, part: str, tier: str, seed: int, shard: int, nshards: int,
                 known: dict[str, str] | None = None, replay: bool = False):
        self.prop, self.part, self.tier, self.seed = prop, part, tier, seed
        self.shard, self.nshards = shard, nshards
        self.known = known or {}
        self.replay = replay
        self.evaluations = 0
        self.nontrivial: set[int] = set()
        self.distinct_by_construction = 0
        self.classes: Counter = Counter()
        self.samples: list = []
        self.known_hits: Counter = Counter()
        self.excluded_known = 0
        self.exhaustive: dict[str, bool] = {}
        self.budget_exhausted = False
        self.extra: dict[str, typ.Any] = {}
        self.current: typ.Any = None
        self.max_samples = 3

    # -- tier helpers ---------------------------------------------------------------------
    @property
    def quick(self) -> bool:
        return self.tier == "quick"

    def pick(self, quick, thorough):
        return quick if self.tier == "quick" else thorough

    def sub_seed(self, *what) -> int:
        return derive_seed(self.seed, self.prop, self.part, self.shard, *what)

    # -- accounting -----------------------------------------------------------------------
    def note(self, key: typ.Any = None, nontrivial: bool = False, classes: typ.Iterable[str] = (),
             sample: typ.Any = None, count: int = 1) -> None:
        """Record one oracle evaluation.  ``key`` identifies the case for distinct-counting."""
        self.evaluations += count
        for c in classes:
            self.classes[c] += 1
        if nontrivial:
            before = len(self.nontrivial)
            self.nontrivial.add(h64(key if key is not None else self.current))
            if len(self.nontrivial) != before and len(self.samples) < self.max_samples \
                    and len(self.nontrivial) in (1, 25, 150):
                self.samples.append(abbrev(sample if sample is not None
                                           else (key if key is not None else self.current)))

    def note_bulk(self, evaluations: int, distinct_nontrivial: int, classes: dict | None = None,
                  samples: list | None = None) -> None:
        """For enumerations whose cases are distinct by construction (e.g. every n in a range):
        counted, not hashed."""
        self.evaluations += evaluations
        self.distinct_by_construction += distinct_nontrivial
        for k, v in (classes or {}).items():
            self.classes[k] += v
        for s in samples or []:
            if len(self.samples) < self.max_samples:
                self.samples.append(abbrev(s))

    def fail(self, check: str, message: str, case: typ.Any = None, signature: str | None = None):
        """Report a disagreement between oracle and code.  Known (open) findings are counted and
        excluded so that the search continues; anything else raises Violation."""
        if signature is not None and signature in self.known:
            self.known_hits[signature] += 1
            self.excluded_known += 1
            return
        v = Violation(check, message, case if case is not None else self.current, signature)
        v.drawn = self.current       # what the part's check function was called with (always replayable)
        raise v

    def result(self) -> dict:
        return {
            "part": self.part, "shard": self.shard,
            "evaluations": self.evaluations,
            "nontrivial": list(self.nontrivial),
            "distinct_by_construction": self.distinct_by_construction,
            "classes": dict(self.classes),
            "samples": self.samples,
            "known_hits": dict(self.known_hits),
            "excluded_known": self.excluded_known,
            "exhaustive": self.exhaustive,
            "budget_exhausted": self.budget_exhausted,
            "extra": self.extra,
        }


# --------------------------------------------------------------------------------------------
# parts
# --------------------------------------------------------------------------------------------
@dataclasses.dataclass
class Part:
    name: str
    check: typ.Callable[[Ctx, typ.Any], None]
    drive: typ.Callable[["Part", Ctx], None]
    shards: dict[str, int]
    doc: str = ""

    def run(self, ctx: Ctx) -> None:
        self.drive(self, ctx)


def hyp_part(name: str, strategy: typ.Callable[[Ctx], typ.Any], check, examples: dict[str, int],
             shards: dict[str, int] | None = None, shrink: bool = True, doc: str = "") -> Part:
    """A part driven by Hypothesis: ``strategy(ctx)`` returns a strategy of JSON-able cases;
    ``examples[tier]`` is the number of examples *per shard*."""

    def drive(part: Part, ctx: Ctx) -> None:
        run_given(ctx, part.name, strategy(ctx), part.check, examples[ctx.tier], shrink=shrink)

    return Part(name, check, drive, shards or {"quick": 4, "thorough": 16}, doc)


def enum_part(name: str, cases: typ.Callable[[Ctx], typ.Iterable], check,
              shards: dict[str, int] | None = None, exhaustive: bool = True, doc: str = "") -> Part:
    """A part driven by complete enumeration of a finite domain, split over shards by index."""

    def drive(part: Part, ctx: Ctx) -> None:
        for i, case in enumerate(cases(ctx)):
            if i % ctx.nshards != ctx.shard:
                continue
            ctx.current = case
            part.check(ctx, case)
        ctx.exhaustive[part.name] = exhaustive

    return Part(name, check, drive, shards or {"quick": 4, "thorough": 16}, doc)


def custom_part(name: str, drive, check, shards: dict[str, int] | None = None, doc: str = "") -> Part:
    return Part(name, check, lambda part, ctx: drive(ctx), shards or {"quick": 1, "thorough": 16}, doc)


def run_given(ctx: Ctx, name: str, strategy, check, max_examples: int, shrink: bool = True) -> None:
    import hypothesis
    from hypothesis import HealthCheck, Phase, given, settings

    phases = [Phase.generate, Phase.target]
    if shrink and not os.environ.get("CPV_NO_SHRINK"):
        phases.append(Phase.shrink)

    # Shrinking is bounded by a wall-clock budget that starts at the FIRST failure: when it is used up the
    # smallest failing case found so far is reported.  The clock only truncates the minimisation of a case that
    # has already failed; it never enters a verdict.
    budget = float(os.environ.get("CPV_SHRINK_BUDGET_S") or (40 if ctx.tier == "quick" else 240))
    state: dict = {"first": None, "last": None}

    @hypothesis.seed(ctx.sub_seed(name))
    @settings(max_examples=max_examples, database=None, deadline=None, derandomize=False,
              report_multiple_bugs=False, print_blob=False, phases=phases,
              suppress_health_check=[HealthCheck.too_slow, HealthCheck.data_too_large,
                                     HealthCheck.large_base_example,
                                     HealthCheck.function_scoped_fixture])
    @given(strategy)
    def test(case):
        if state["first"] is not None and time.monotonic() - state["first"] > budget:
            raise _ShrinkBudgetUsedUp()
        ctx.current = case
        try:
            check(ctx, case)
        except Violation as v:
            if state["first"] is None:
                state["first"] = time.monotonic()
            state["last"] = v
            v.drawn = case
            raise

    try:
        test()
    except _ShrinkBudgetUsedUp:
        raise state["last"] from None


def run_machine(ctx: Ctx, name: str, machine_cls, max_examples: int, step_count: int,
                shrink: bool = True) -> None:
    import hypothesis
    from hypothesis import HealthCheck, Phase, settings
    from hypothesis.stateful import run_state_machine_as_test

    phases = [Phase.generate, Phase.target]
    if shrink and not os.environ.get("CPV_NO_SHRINK"):
        phases.append(Phase.shrink)
    st = settings(max_examples=max_examples, stateful_step_count=step_count, database=None,
                  deadline=None, derandomize=False, report_multiple_bugs=False, print_blob=False,
                  phases=phases,
                  suppress_health_check=[HealthCheck.too_slow, HealthCheck.data_too_large,
                                         HealthCheck.large_base_example,
                                         HealthCheck.filter_too_much])
    run_state_machine_as_test(hypothesis.seed(ctx.sub_seed(name))(machine_cls), settings=st)


class Timer:
    def __init__(self):
        self.t0 = time.time()

    def elapsed(self) -> float:
        return time.time() - self.t0
