"""bytes -> text decoders of the C18 fuzz target (kept separate so that the parent can re-decode a
crash artefact without importing atheris)."""
from __future__ import annotations

NAMES = ["Song", "SyncTrack", "Events", "ExpertSingle", "EasyDrums", "Foo", "MediumKeyboard", "HardGHLBass"]


class _Reader:
    def __init__(self, data: bytes):
        self.d = data
        self.i = 0

    def byte(self) -> int:
        if self.i >= len(self.d):
            return 0
        b = self.d[self.i]
        self.i += 1
        return b

    def num(self) -> int:
        """Small numbers most of the time, up to 8 digits sometimes."""
        b = self.byte()
        if b < 200:
            return b
        if b < 240:
            return (b - 200) * 256 + self.byte()
        v = 0
        for _ in range(4):
            v = v * 256 + self.byte()
        return v % 100_000_000

    def left(self) -> bool:
        return self.i < len(self.d)


def _line(r: _Reader, dict_lines) -> str:
    k = r.byte() % 12
    if k <= 2:
        return dict_lines[r.byte() % len(dict_lines)]
    if k == 3:
        return f"  {r.num()} = N {r.byte() % 10} {r.num()}"
    if k == 4:
        return f"  {r.num()} = B {r.num() * (1000 if r.byte() % 2 else 1)}"
    if k == 5:
        return f"  {r.num()} = TS {r.num() % 100} {r.byte() % 64}"
    if k == 6:
        return f"  {r.num()} = TS {r.num() % 100}"
    if k == 7:
        return f"  {r.num()} = S {[2, 2, 2, 0, 1, 64][r.byte() % 6]} {r.num()}"
    if k == 8:
        return f'  {r.num()} = E "{["lyric a", "section b", "c", "", "x y", chr(34)][r.byte() % 6]}"'
    if k == 9:
        return f"  {r.num()} = E {['solo', 'soloend', 'x', ''][r.byte() % 4]}"
    if k == 10:
        return f"  {r.num()} = A {r.num()}"
    return f"  Resolution = {r.num()}"


def decode_structured(data: bytes) -> str:
    from cpverif.props.c18 import DICT, apply_ops
    r = _Reader(data)
    lines: list[str] = []
    first = r.byte()
    secnames = ["Song", "SyncTrack", "Events"] if first % 8 else []
    for _ in range(first // 8 % 5):
        secnames.append(NAMES[r.byte() % len(NAMES)])
    for name in secnames:
        style = r.byte() % 32
        if style != 0:
            lines.append(f"[{name}]")
        if style != 1:
            lines.append("{")
        if name == "Song" and style % 4 != 3:
            lines.append(f"  Resolution = {[192, 1, 480, 0, 100][r.byte() % 5]}")
        if name == "SyncTrack" and style % 4 != 3:
            lines += ["  0 = TS 4", f"  0 = B {[120000, 1, 60000, 0][r.byte() % 4]}"]
        for _ in range(r.byte() % 10):
            lines.append(_line(r, DICT))
        if style != 2:
            lines.append("}")
    ops = []
    names = ["del", "dup", "swap", "move", "ins_frag", "rep_frag", "ch_ins", "ch_del", "ch_rep", "tok"]
    while r.left() and len(ops) < 6:
        ops.append([names[r.byte() % len(names)], r.num(), r.num(), r.byte()])
    lines = apply_ops(lines, ops) if lines else lines
    return "\n".join(lines) + "\n"


def decode(data: bytes, mode: str) -> str:
    if mode == "raw":
        return data.decode("utf-8", "replace")
    return decode_structured(data)
