#!/venv/bin/python
"""Coverage-guided fuzz target for C18 (run by cpverif/props/c18.py, one libFuzzer process).

env: CPV_FUZZ_MODE=structured|raw  CPV_FUZZ_STATS=<json path>  CPV_FUZZ_SEEDED=0|1  CPV_FUZZ_CORPUS=<dir>
The semantic oracle (documented errors only; returned charts render) lives inside the target."""
import glob
import json
import os
import sys

HERE = os.path.dirname(os.path.abspath(__file__))
VERIF = os.path.dirname(os.path.dirname(HERE))
sys.path.insert(0, VERIF)
sys.path.insert(1, os.path.join(VERIF, ".deps"))

import atheris  # noqa: E402

from cpverif import core  # noqa: E402

with atheris.instrument_imports(include=["chartparse"]):
    core.load_lib()

from cpverif import c18_oracle as O  # noqa: E402
from cpverif.fuzz.c18_decode import decode  # noqa: E402

MODE = os.environ.get("CPV_FUZZ_MODE", "structured")
STATS = os.environ.get("CPV_FUZZ_STATS")
stats = {"executions": 0, "skipped_outside_quantifier": 0, "classes": {}, "distinct_nontrivial": 0,
         "samples": []}
_seen = set()


def _flush():
    if STATS:
        stats["distinct_nontrivial"] = len(_seen)
        tmp = STATS + ".tmp"
        with open(tmp, "w") as f:
            json.dump(stats, f)
        os.replace(tmp, STATS)


def TestOneInput(data: bytes) -> None:
    text = decode(data, MODE)
    stats["executions"] += 1
    if not O.in_domain(text):
        stats["skipped_outside_quantifier"] += 1
    else:
        outcome, stage, viol = O.judge(text)
        k = f"outcome_{outcome}"
        stats["classes"][k] = stats["classes"].get(k, 0) + 1
        k2 = f"stage_{stage.split(':')[0]}"
        stats["classes"][k2] = stats["classes"].get(k2, 0) + 1
        if O.past_framing(outcome, stage):
            h = core.h64(text)
            if h not in _seen:
                _seen.add(h)
                if len(_seen) in (5, 200, 2000) and len(stats["samples"]) < 3:
                    stats["samples"].append({"text": text[:400], "outcome": outcome, "stage": stage})
        if viol:
            _flush()
            raise RuntimeError(viol)
    if stats["executions"] % 500 == 0:
        _flush()


def _seed_corpus(corpus: str) -> None:
    from cpverif import spec as S
    from cpverif.props.c02 import table_cases
    if MODE == "raw":
        texts = []
        for fn in sorted(glob.glob(os.path.join(core.REPO, "tests", "data", "*.chart"))):
            with open(fn, "rb") as f:
                b = f.read()
            texts.append(b[3:] if b.startswith(b"\xef\xbb\xbf") else b)
        spec = {"res": 192, "sync": [[0, "TS", 4], [0, "B", 120000], [400, "B", 90000], [400, "TS", 3, 3]],
                "events": [[0, "section a"], [10, "lyric b"], [20, "c"]],
                "tracks": {"ExpertSingle": [[0, "N", 0, 0], [10, "N", 1, 20], [10, "N", 2, 30], [10, "N", 5, 0],
                                            [20, "S", 2, 50], [30, "N", 7, 0], [30, "E", "solo"]]}}
        texts.append(S.render(spec).encode())
        texts.append(b"[Song]\n{\n  Resolution = 192\n}\n[SyncTrack]\n{\n  0 = TS 4\n  0 = B 120000\n}\n[Events]\n{\n}\n")
        for i, t in enumerate(texts):
            with open(os.path.join(corpus, f"seed{i}"), "wb") as f:
                f.write(t[:2048])
    else:
        for i in range(6):
            with open(os.path.join(corpus, f"seed{i}"), "wb") as f:
                f.write(bytes((j * (i + 3) + i * 17) % 256 for j in range(64 + 40 * i)))


def main():
    argv = list(sys.argv)
    corpus = os.environ.get("CPV_FUZZ_CORPUS")
    if os.environ.get("CPV_FUZZ_SEEDED") == "1" and corpus:
        _seed_corpus(corpus)
    if MODE == "raw" and corpus:
        from cpverif.props.c18 import DICT
        dpath = os.path.join(os.path.dirname(corpus), "tokens.dict")
        with open(dpath, "w", encoding="utf-8") as f:
            toks = set()
            for line in DICT:
                toks.add(line)
                toks.update(line.split(" "))
            for i, t in enumerate(sorted(x for x in toks if x)):
                esc = "".join(f"\\x{b:02x}" for b in t.encode("utf-8"))
                f.write(f'kw{i}="{esc}"\n')
        argv.append(f"-dict={dpath}")
    atheris.Setup(argv, TestOneInput)
    atheris.Fuzz()


if __name__ == "__main__":
    main()
