"""CLI of the verification framework.

    python -m cpverif.run C07 [--tier quick|thorough] [--seed N] [--replay FILE] [--jobs N]

Environment: VERIF_SEED, VERIF_TIER (overridden by the flags), CPV_REPO (default /repo),
CPV_JOBS (worker processes, default 16).

exit 0  property held on everything explored (KNOWN-FINDING lines may be printed)
exit 1  a line "VIOLATION property=<id> replay=<path>" was printed
exit 2  harness / environment error (never reported as a violation)
"""
from __future__ import annotations

import argparse
import importlib
import json
import multiprocessing
import os
import sys
import time
import traceback

from cpverif import core
from cpverif.core import Ctx, HarnessError, Violation


def out(*args, **kwargs):
    """print() that survives a reader that went away (e.g. `| head`): the verdict is the exit status."""
    try:
        print(*args, **kwargs)
        (kwargs.get("file") or sys.stdout).flush()
    except BrokenPipeError:
        try:
            sys.stdout = open(os.devnull, "w")
        except Exception:  # noqa: BLE001
            pass


def _module(prop: str):
    return importlib.import_module(f"cpverif.props.{prop.lower()}")


def _start_linecov():
    """Development aid (CPV_LINECOV=<dir>): which lines of the library does a check execute?"""
    lib = os.path.join(core.REPO, "chartparse") + os.sep
    seen = set()

    def local(frame, event, arg):
        if event == "line":
            seen.add((frame.f_code.co_filename, frame.f_lineno))
        return local

    def glob(frame, event, arg):
        if frame.f_code.co_filename.startswith(lib):
            seen.add((frame.f_code.co_filename, frame.f_lineno))
            return local
        return None

    sys.settrace(glob)
    return seen


def _stop_linecov(seen, tag):
    sys.settrace(None)
    d = os.environ["CPV_LINECOV"]
    os.makedirs(d, exist_ok=True)
    with open(os.path.join(d, tag + ".json"), "w") as f:
        json.dump(sorted([os.path.basename(a), b] for a, b in seen), f)


def _find_violation(e, depth=0, seen=None):
    seen = seen if seen is not None else set()
    if e is None or id(e) in seen or depth > 12:
        return None
    seen.add(id(e))
    if isinstance(e, Violation):
        return e
    for sub in getattr(e, "exceptions", ()) or ():
        r = _find_violation(sub, depth + 1, seen)
        if r is not None:
            return r
    return _find_violation(e.__cause__, depth + 1, seen) or _find_violation(e.__context__, depth + 1, seen)


def _run_shard(task):
    prop, part_name, tier, seed, shard, nshards, known = task
    t0 = time.time()
    try:
        # a runaway computation in the code under test (e.g. 2**<huge>) must end as MemoryError in this
        # worker, not as a machine out of memory
        import resource
        lim = int(os.environ.get("CPV_MEM_LIMIT_GB", "8")) * (1 << 30)
        resource.setrlimit(resource.RLIMIT_AS, (lim, lim))
    except Exception:  # noqa: BLE001
        pass
    try:
        mod = _module(prop)
        if getattr(mod, "NEEDS_LIB", True):
            core.load_lib()
        part = next(p for p in mod.PARTS if p.name == part_name)
    except BaseException:
        return {"part": part_name, "shard": shard, "error": traceback.format_exc(), "wall": 0.0}
    ctx = Ctx(prop, part_name, tier, seed, shard, nshards, known)
    viol = None
    err = None
    cov = _start_linecov() if os.environ.get("CPV_LINECOV") else None
    try:
        part.run(ctx)
    except Violation as v:
        viol = {"check": v.check, "message": v.message, "case": v.case, "signature": v.signature,
                "drawn": getattr(v, "drawn", None)}
    except BaseException as e:  # noqa: BLE001
        tb = e.__traceback__
        # Hypothesis may wrap (chained exceptions, or an ExceptionGroup such as FlakyFailure when a
        # failure seen under OS thread scheduling does not reproduce on replay): look for a Violation
        found = _find_violation(e)
        if found is not None:
            flaky = found is not e
            viol = {"check": found.check, "message": found.message + (
                "\n(observed once; Hypothesis could not reproduce it on replay - schedule dependent)"
                if flaky and type(e).__name__.startswith("Flaky") else ""),
                "case": found.case, "signature": found.signature, "drawn": getattr(found, "drawn", None)}
        if viol is None:
            if isinstance(e, (KeyboardInterrupt, SystemExit, HarnessError)):
                err = traceback.format_exc()
            elif core.tb_touches_lib(tb):
                # an exception escaping from the code under test that the checker did not expect
                viol = {"check": f"{part_name}:unexpected-exception",
                        "message": f"{type(e).__name__}: {e}\n"
                                   + "".join(traceback.format_exception(type(e), e, tb)[-6:]),
                        "case": ctx.current, "signature": None}
            else:
                err = traceback.format_exc()
    if cov is not None:
        _stop_linecov(cov, f"{prop}-{part_name}-{shard}")
    res = ctx.result()
    res["violation"] = viol
    res["error"] = err
    res["wall"] = time.time() - t0
    return res


def _write_replay(prop: str, viol: dict, seed: int, tier: str, part: str) -> str:
    d = os.path.join(core.VERIF, "replay", prop)
    os.makedirs(d, exist_ok=True)
    payload = {"property": prop, "part": part, "check": viol["check"], "message": viol["message"],
               "case": viol["case"], "seed": seed, "tier": tier, "signature": viol.get("signature")}
    # the generated case the part's check function was called with, when the reported case is a description of
    # the failure in another shape (replay tries both)
    if viol.get("drawn") is not None and viol.get("drawn") != viol["case"]:
        try:
            json.dumps(viol["drawn"])
            payload["drawn"] = viol["drawn"]
        except Exception:  # noqa: BLE001
            pass
    try:
        body = json.dumps(payload, indent=1, sort_keys=True, default=repr, ensure_ascii=True)
    except Exception:  # noqa: BLE001
        payload["case"] = repr(viol["case"])
        body = json.dumps(payload, indent=1, sort_keys=True, default=repr, ensure_ascii=True)
    name = f"{part}-{core.h64(body):016x}.json"
    path = os.path.join(d, name)
    with open(path, "w", encoding="utf-8") as f:
        f.write(body + "\n")
    return path


def do_replay(prop: str, path: str) -> int:
    with open(path, encoding="utf-8") as f:
        payload = json.load(f)
    if payload.get("property") not in (None, prop):
        out(f"replay file is for {payload.get('property')}, not {prop}", file=sys.stderr)
        return 2
    mod = _module(prop)
    if getattr(mod, "NEEDS_LIB", True):
        core.load_lib()
    part = next((p for p in mod.PARTS if p.name == payload["part"]), None)
    if part is None:
        out(f"unknown part {payload['part']}", file=sys.stderr)
        return 2
    known = core.load_known_findings().get(prop, {})
    ctx = Ctx(prop, part.name, payload.get("tier", "quick"), int(payload.get("seed", 0)), 0, 1,
              known, replay=True)
    # "drawn" is the generated case the part's check function was called with; "case" may describe the failure in
    # another shape (missing the parameters the check function defaults), so it is only used when nothing else is
    # recorded (regress/ files, older replay files)
    candidates = [payload["drawn"]] if payload.get("drawn") is not None else [payload["case"]]
    harness_errors = 0
    for cand in candidates:
        ctx.current = cand
        try:
            part.check(ctx, cand)
        except Violation as v:
            out(f"replay: {v}")
            out(f"VIOLATION property={prop} replay={path}")
            return 1
        except BaseException as e:  # noqa: BLE001
            if core.tb_touches_lib(e.__traceback__):
                out(f"replay: unexpected {type(e).__name__}: {e}")
                out(f"VIOLATION property={prop} replay={path}")
                return 1
            # the recorded case is not in the shape this part's check function takes: try the drawn one
            harness_errors += 1
            if cand is candidates[-1] and harness_errors == len(candidates):
                traceback.print_exc()
                return 2
    for sig, n in ctx.known_hits.items():
        out(f"KNOWN-FINDING: property={prop} {sig} {known.get(sig, '')}")
    out(f"replay: no violation for {path}")
    return 0


def run_regress(prop: str, mod, known) -> list[tuple[str, dict]]:
    """Replay tier: committed regression cases under regress/<id>/ run first, without Hypothesis."""
    d = os.path.join(core.VERIF, "regress", prop)
    out = []
    if not os.path.isdir(d):
        return out
    for fn in sorted(os.listdir(d)):
        if not fn.endswith(".json"):
            continue
        with open(os.path.join(d, fn), encoding="utf-8") as f:
            payload = json.load(f)
        part = next((p for p in mod.PARTS if p.name == payload["part"]), None)
        if part is None:
            raise HarnessError(f"regress file {fn}: unknown part {payload['part']}")
        ctx = Ctx(prop, part.name, "quick", 0, 0, 1, known, replay=True)
        ctx.current = payload["case"]
        try:
            part.check(ctx, payload["case"])
        except Violation as v:
            out.append((fn, {"check": v.check, "message": v.message, "case": v.case,
                             "signature": v.signature, "part": part.name}))
        except BaseException as e:  # noqa: BLE001
            if core.tb_touches_lib(e.__traceback__):
                out.append((fn, {"check": f"{part.name}:unexpected-exception",
                                 "message": f"{type(e).__name__}: {e}", "case": payload["case"],
                                 "signature": None, "part": part.name}))
            else:
                raise
        else:
            out.append((fn, None))
    return out


def main(argv=None) -> int:
    ap = argparse.ArgumentParser()
    ap.add_argument("prop")
    ap.add_argument("--tier", default=os.environ.get("VERIF_TIER") or "quick",
                    choices=["quick", "thorough"])
    ap.add_argument("--seed", type=int, default=None)
    ap.add_argument("--replay", default=None)
    ap.add_argument("--jobs", type=int, default=int(os.environ.get("CPV_JOBS", "16")))
    ap.add_argument("--parts", default=None, help="comma separated subset of part names (debug)")
    ap.add_argument("--no-evidence", action="store_true")
    args = ap.parse_args(argv)
    prop = args.prop.upper()
    seed = args.seed
    if seed is None:
        try:
            seed = int(os.environ.get("VERIF_SEED", "") or 1)
        except ValueError:
            seed = core.h64(os.environ["VERIF_SEED"]) % (2**31)

    if args.replay:
        return do_replay(prop, args.replay)

    t0 = time.time()
    try:
        mod = _module(prop)
    except Exception:  # noqa: BLE001
        traceback.print_exc()
        return 2
    known = core.load_known_findings().get(prop, {})

    parts = mod.PARTS
    if args.parts:
        want = set(args.parts.split(","))
        parts = [p for p in parts if p.name in want]
    tasks = []
    for p in parts:
        n = p.shards.get(args.tier, 1)
        for s in range(n):
            tasks.append((prop, p.name, args.tier, seed, s, n, known))

    # Regression replays first (seconds); they run in a child so that the parent never imports
    # the code under test (keeps fork-children pristine).
    jobs = max(1, min(args.jobs, len(tasks)))
    results = []
    regress = []
    import shutil
    workdir = os.path.join(core.VERIF, ".work", f"run_{os.getpid()}")
    os.environ["CPV_WORKDIR"] = workdir
    try:
        mp = multiprocessing.get_context("fork")
        with mp.Pool(processes=jobs, maxtasksperchild=1) as pool:
            reg_async = pool.apply_async(_regress_entry, ((prop, known),))
            it = pool.imap_unordered(_run_shard, tasks, chunksize=1)
            for r in it:
                results.append(r)
            regress = reg_async.get()
    except Exception:  # noqa: BLE001
        traceback.print_exc()
        shutil.rmtree(workdir, ignore_errors=True)
        return 2
    shutil.rmtree(workdir, ignore_errors=True)

    order = {p.name: i for i, p in enumerate(mod.PARTS)}
    results.sort(key=lambda r: (order.get(r["part"], 99), r["shard"]))

    errors = [r for r in results if r.get("error")]
    if isinstance(regress, dict) and regress.get("error"):
        errors.append({"part": "regress", "shard": 0, "error": regress["error"]})
        regress = []
    violations = []
    for fn, v in regress:
        if v is not None:
            violations.append((v["part"], v, f"regress/{prop}/{fn}"))
    for r in results:
        if r.get("violation"):
            violations.append((r["part"], r["violation"], None))

    # merge
    evaluations = sum(r.get("evaluations", 0) for r in results) + len(regress)
    nontrivial: set[int] = set()
    per_part: dict[str, dict] = {}
    classes: dict[str, int] = {}
    samples = []
    known_hits: dict[str, int] = {}
    excluded = 0
    budget_exhausted = False
    extra: dict = {}
    for r in results:
        if "evaluations" not in r:
            continue
        pp = per_part.setdefault(r["part"], {"evaluations": 0, "distinct_nontrivial": 0,
                                             "_set": set(), "exhaustive": None, "shards": 0,
                                             "cpu_s": 0.0})
        pp["evaluations"] += r["evaluations"]
        pp["_set"].update(r["nontrivial"])
        pp["distinct_nontrivial"] += r["distinct_by_construction"]
        pp["shards"] += 1
        pp["cpu_s"] = round(pp["cpu_s"] + r.get("wall", 0.0), 2)
        for k, v in r["exhaustive"].items():
            pp["exhaustive"] = bool(v) if pp["exhaustive"] is None else (pp["exhaustive"] and bool(v))
        for k, v in r["classes"].items():
            classes[f"{r['part']}/{k}"] = classes.get(f"{r['part']}/{k}", 0) + v
        for k, v in r["known_hits"].items():
            known_hits[k] = known_hits.get(k, 0) + v
        excluded += r["excluded_known"]
        budget_exhausted = budget_exhausted or r["budget_exhausted"]
        for k, v in r.get("extra", {}).items():
            extra.setdefault(r["part"], {})[k] = v
    distinct_total = 0
    for name, pp in per_part.items():
        pp["distinct_nontrivial"] += len(pp["_set"])
        nontrivial |= {core.h64(f"{name}:{x}") for x in pp["_set"]}
        distinct_total += pp["distinct_nontrivial"]
        del pp["_set"]
        if pp["exhaustive"] is None:
            pp["exhaustive"] = False
    # samples: round-robin over parts so that every part is visible
    by_part = {}
    for r in results:
        by_part.setdefault(r["part"], []).extend(r.get("samples", []))
    for name in [p.name for p in mod.PARTS]:
        for s in by_part.get(name, [])[:2]:
            samples.append({"part": name, "case": s})
    if not samples:
        samples = [{"part": r["part"], "case": s} for r in results for s in r.get("samples", [])][:5]

    wall = time.time() - t0
    evidence = {
        "property_id": prop,
        "tier": args.tier,
        "seed": seed,
        "level": getattr(mod, "LEVEL", "exploration"),
        "coverage": {
            "evaluations": evaluations,
            "distinct_nontrivial": distinct_total,
            "rule": mod.RULE,
            "samples": samples[:12],
            "exhaustive": bool(per_part) and all(pp["exhaustive"] for pp in per_part.values()),
            "parts": per_part,
            "classes": dict(sorted(classes.items())),
            "regress_cases_replayed": len(regress),
            "excluded_known": excluded,
            "known_findings_hit": known_hits,
            "budget_exhausted": budget_exhausted,
            "extra": extra,
            "repo": core.REPO,
        },
        "assumptions": list(getattr(mod, "ASSUMPTIONS", [])),
        "wall_s": round(wall, 2),
        "violations": len(violations),
    }
    if not args.no_evidence and not args.parts:
        os.makedirs(os.path.join(core.VERIF, "evidence"), exist_ok=True)
        tmp = os.path.join(core.VERIF, "evidence", f".{prop}.json.tmp")
        with open(tmp, "w", encoding="utf-8") as f:
            json.dump(evidence, f, indent=1, sort_keys=True, default=repr, ensure_ascii=True)
            f.write("\n")
        os.replace(tmp, os.path.join(core.VERIF, "evidence", f"{prop}.json"))

    for sig, n in sorted(known_hits.items()):
        out(f"KNOWN-FINDING: property={prop} {sig} ({n} cases excluded) {known.get(sig, '')}")

    out(f"{prop} tier={args.tier} seed={seed} evaluations={evaluations} "
          f"distinct_nontrivial={distinct_total} violations={len(violations)} "
          f"wall={wall:.1f}s")
    for name, pp in per_part.items():
        out(f"  part {name}: evaluations={pp['evaluations']} distinct_nontrivial="
              f"{pp['distinct_nontrivial']} exhaustive={pp['exhaustive']} cpu={pp['cpu_s']}s")

    if errors:
        for e in errors[:2]:
            out(f"HARNESS-ERROR part={e['part']} shard={e['shard']}\n{e['error'][-3000:]}",
                  file=sys.stderr)
        if len(errors) > 2:
            out(f"HARNESS-ERROR ... and {len(errors) - 2} more shard errors", file=sys.stderr)
    if violations:
        seen = set()
        for part, v, existing in violations:
            key = (part, v["check"], v.get("signature"))
            if key in seen:
                continue
            seen.add(key)
            path = existing or os.path.relpath(_write_replay(prop, v, seed, args.tier, part),
                                               core.VERIF)
            msg = v["message"].strip().splitlines()
            out(f"  {v['check']}: {(msg[0] if msg else '')[:1500]}")
            for extra_line in msg[1:8]:
                out(f"    {extra_line[:1500]}")
            out(f"VIOLATION property={prop} replay={path}")
        return 1
    if errors:
        return 2
    if distinct_total < 2 or evaluations < 1:
        out("HARNESS-ERROR: run explored fewer than 2 distinct non-trivial cases", file=sys.stderr)
        return 2
    return 0


def _regress_entry(arg):
    prop, known = arg
    try:
        if getattr(_module(prop), "NEEDS_LIB", True):
            core.load_lib()
        return run_regress(prop, _module(prop), known)
    except BaseException:  # noqa: BLE001
        return {"error": traceback.format_exc()}


if __name__ == "__main__":
    rc = main()
    try:
        sys.stdout.flush()
    except BrokenPipeError:
        try:
            sys.stdout = open(os.devnull, "w")
        except Exception:  # noqa: BLE001
            pass
    sys.exit(rc)
