"""Lazy access to the code under test: ``from cpverif.lib import L`` then ``L.Chart`` etc.

Nothing is imported from chartparse until the first attribute access, so the parent runner process
never loads the library (workers are forked pristine)."""
from __future__ import annotations

import io

from cpverif import core


class _Lib:
    _loaded = False

    def _load(self):
        core.load_lib()
        import chartparse.chart as chart
        import chartparse.event as event
        import chartparse.exceptions as exceptions
        import chartparse.globalevents as globalevents
        import chartparse.instrument as instrument
        import chartparse.metadata as metadata
        import chartparse.sync as sync
        import chartparse.tick as tick
        import chartparse.time as time_
        import chartparse.track as track
        import chartparse.util as util

        d = self.__dict__
        d.update(chart=chart, event=event, exceptions=exceptions, globalevents=globalevents,
                 instrument=instrument, metadata=metadata, sync=sync, tick=tick, time=time_,
                 track=track, util=util)
        d.update(Chart=chart.Chart, Instrument=instrument.Instrument,
                 Difficulty=instrument.Difficulty, Note=instrument.Note,
                 NoteEvent=instrument.NoteEvent, StarPowerEvent=instrument.StarPowerEvent,
                 TrackEvent=instrument.TrackEvent, HOPOState=instrument.HOPOState,
                 InstrumentTrack=instrument.InstrumentTrack,
                 NoteTrackIndex=instrument.NoteTrackIndex,
                 BPMEvent=sync.BPMEvent, BPMEvents=sync.BPMEvents,
                 TimeSignatureEvent=sync.TimeSignatureEvent, AnchorEvent=sync.AnchorEvent,
                 SyncTrack=sync.SyncTrack, Metadata=metadata.Metadata,
                 Player2Instrument=metadata.Player2Instrument,
                 GlobalEventsTrack=globalevents.GlobalEventsTrack,
                 TextEvent=globalevents.TextEvent, SectionEvent=globalevents.SectionEvent,
                 LyricEvent=globalevents.LyricEvent,
                 RegexNotMatchError=exceptions.RegexNotMatchError,
                 MissingRequiredField=exceptions.MissingRequiredField,
                 UnreachableError=exceptions.UnreachableError)
        d["_loaded"] = True

    def __getattr__(self, name):
        if not self.__dict__.get("_loaded"):
            self._load()
            return getattr(self, name)
        raise AttributeError(name)

    # convenience -------------------------------------------------------------------------
    def parse(self, text: str, want_tracks=None):
        return self.Chart.from_file(io.StringIO(text, newline=""), want_tracks=want_tracks)

    @property
    def DOCUMENTED_ERRORS(self):
        return (ValueError, self.RegexNotMatchError, self.MissingRequiredField)


L = _Lib()
