"""Independent oracles, written against the *format* and the property statements, never against
the implementation: exact tempo map, note grouping / sustain / HOPO / star power, reference line
recognisers, metadata decoder, global-event classifier, notes-per-second.

Nothing in this module imports chartparse.
"""
from __future__ import annotations

import bisect
from fractions import Fraction

# ------------------------------------------------------------------------------------------------
# exact tempo map
# ------------------------------------------------------------------------------------------------


class TempoModel:
    """Exact-rational tempo map.  ``tempo`` = [(tick, n)] with n in thousandths of a BPM, strictly
    increasing ticks, first tick 0."""

    def __init__(self, res: int, tempo):
        self.res = res
        self.tempo = [(int(t), int(n)) for t, n in tempo]
        assert self.tempo and self.tempo[0][0] == 0
        self.ticks = [t for t, _ in self.tempo]
        # microseconds per tick of segment k, exact: 60 s / (n/1000 BPM * res) = 6e10 / (n * res) us
        self.uspt = [Fraction(60_000_000_000, n * res) if n > 0 else None for _, n in self.tempo]
        self.start_us = [Fraction(0)]
        for k in range(1, len(self.tempo)):
            prev = self.uspt[k - 1]
            if prev is None:
                self.start_us.append(None)  # type: ignore[arg-type]
                continue
            base = self.start_us[k - 1]
            self.start_us.append(None if base is None else  # type: ignore[arg-type]
                                 base + (self.ticks[k] - self.ticks[k - 1]) * prev)

    def governing(self, tick: int) -> int:
        """Index of the last tempo event at or before ``tick`` (brute force on purpose)."""
        g = 0
        for i, t in enumerate(self.ticks):
            if t <= tick:
                g = i
        return g

    def governing_fast(self, tick: int) -> int:
        return bisect.bisect_right(self.ticks, tick) - 1

    def exact_us(self, tick: int) -> Fraction:
        k = self.governing_fast(tick)
        return self.start_us[k] + (tick - self.ticks[k]) * self.uspt[k]

    def segments_traversed(self, tick: int) -> int:
        k = self.governing_fast(tick)
        return k + (1 if tick > self.ticks[k] else 0)

    def tolerance_us(self, tick: int) -> Fraction:
        """Half a microsecond per tempo segment traversed, plus 1 ns per segment of float slack."""
        s = self.segments_traversed(tick)
        return s * (Fraction(1, 2) + Fraction(1, 1000))

    def error_us(self, reported_us: int, tick: int) -> Fraction:
        return abs(Fraction(reported_us) - self.exact_us(tick))

    def ok(self, reported_us: int, tick: int) -> bool:
        return self.error_us(reported_us, tick) <= self.tolerance_us(tick)

    def max_tick_within(self, seconds: int) -> int:
        """Largest tick whose exact time is < ``seconds``."""
        lim = Fraction(seconds * 1_000_000)
        last = len(self.tempo) - 1
        if self.start_us[last] >= lim:
            # find segment containing the limit
            for k in range(last, -1, -1):
                if self.start_us[k] < lim:
                    last = k
                    break
        extra = (lim - self.start_us[last]) / self.uspt[last]
        t = self.ticks[last] + int(extra)
        if self.exact_us(t) >= lim:
            t -= 1
        if last + 1 < len(self.ticks):
            t = min(t, self.ticks[last + 1])
        return max(t, 0)

    def strict_regime(self) -> bool:
        """Every tick lasts >= 2 us at every tempo: BPM x res <= 3*10^7, i.e. n*res <= 3*10^10."""
        return all(n * self.res <= 30_000_000_000 for _, n in self.tempo)


def td_us(td) -> int:
    """timedelta -> integer microseconds, exactly."""
    return (td.days * 86400 + td.seconds) * 1_000_000 + td.microseconds


# ------------------------------------------------------------------------------------------------
# instrument section model
# ------------------------------------------------------------------------------------------------
OPEN, FORCED, TAP = 7, 5, 6


def hopo_threshold(res: int) -> int:
    """Eighth-note triplet = res/3 rounded to the nearest tick (res/3 is never a tie)."""
    return (2 * res + 3) // 6


def expected_notes(res: int, items) -> list[dict]:
    """Expected note events of a *well-formed* instrument section.

    ``items`` are track items in file order ([tick,"N",idx,len] | [tick,"S",idx,len] | [tick,"E",w] |
    [tick,"RAW",line]).  Well-formed: N lines sorted by tick (so all lines of one tick are
    contiguous among the N lines), open never combined with lanes.
    """
    phrases = [(it[0], it[3]) for it in items if it[1] == "S" and it[2] == 2]
    groups: dict[int, list] = {}
    order: list[int] = []
    for it in items:
        if it[1] != "N":
            continue
        if it[0] not in groups:
            groups[it[0]] = []
            order.append(it[0])
        groups[it[0]].append((it[2], it[3]))
    assert order == sorted(order), "model requires N lines sorted by tick"
    thr = hopo_threshold(res)
    out = []
    prev = None
    for tick in order:
        lines = groups[tick]
        lanes = [0, 0, 0, 0, 0]
        lens: list = [None] * 5
        is_open = False
        open_len = None
        tap = forced = False
        for idx, ln in lines:
            if 0 <= idx <= 4:
                lanes[idx] = 1
                lens[idx] = ln
            elif idx == OPEN:
                is_open = True
                if open_len is None:
                    open_len = ln
            elif idx == TAP:
                tap = True
            elif idx == FORCED:
                forced = True
        active = [x for x in lens if x is not None]
        if is_open and not active:
            sustain = open_len
            longest = open_len
        elif not active:
            sustain = 0  # only flag lines at this tick
            longest = 0
        elif all(a == active[0] for a in active):
            sustain = active[0]
            longest = active[0]
        else:
            sustain = tuple(lens)
            longest = max(active)
        value = tuple(lanes)
        nlanes = sum(lanes)
        if tap:
            hopo = "TAP"
        elif prev is None:
            hopo = "STRUM"
        else:
            natural = (nlanes <= 1) and (value != prev["value"]) and (tick - prev["tick"] <= thr)
            hopo = "HOPO" if natural != forced else "STRUM"
        sp = None
        for i, (ptick, plen) in enumerate(phrases):
            if ptick <= tick < ptick + plen:
                sp = i
                break
        ev = {"tick": tick, "value": value, "sustain": sustain, "longest": longest,
              "end_tick": tick + longest, "hopo": hopo, "sp": sp, "tap": tap, "forced": forced,
              "open": is_open}
        out.append(ev)
        prev = ev
    return out


# ------------------------------------------------------------------------------------------------
# reference recognisers (hand-written scanners; ASCII digits, blank = space or tab)
# ------------------------------------------------------------------------------------------------
BLANKS = " \t"
DIGITS = "0123456789"


def _strip_pad(s: str) -> str:
    i, j = 0, len(s)
    while i < j and s[i] in BLANKS:
        i += 1
    while j > i and s[j - 1] in BLANKS:
        j -= 1
    return s[i:j]


def _lstrip_pad(s: str) -> str:
    i = 0
    while i < len(s) and s[i] in BLANKS:
        i += 1
    return s[i:]


def _is_digits(s: str) -> bool:
    return len(s) > 0 and all(c in DIGITS for c in s)


def _split_tick(body: str):
    """'<digits> = <rest>' -> (tick digits, rest) or None."""
    k = 0
    while k < len(body) and body[k] in DIGITS:
        k += 1
    if k == 0 or body[k:k + 3] != " = ":
        return None
    return body[:k], body[k + 3:]


def ref_note(line: str):
    """'<tick> = N <0..7> <length>' with blank padding -> (tick, idx, length) or None."""
    r = _split_tick(_strip_pad(line))
    if r is None:
        return None
    tick, rest = r
    parts = rest.split(" ")
    if len(parts) != 3 or parts[0] != "N":
        return None
    if len(parts[1]) != 1 or parts[1] not in "01234567" or not _is_digits(parts[2]):
        return None
    return int(tick), int(parts[1]), int(parts[2])


def ref_star_power(line: str):
    """'<tick> = S 2 <length>' -> (tick, length) or None."""
    r = _split_tick(_strip_pad(line))
    if r is None:
        return None
    tick, rest = r
    parts = rest.split(" ")
    if len(parts) != 3 or parts[0] != "S" or parts[1] != "2" or not _is_digits(parts[2]):
        return None
    return int(tick), int(parts[2])


def ref_track_event(line: str):
    """'<tick> = E <word>' -> (tick, word) or None.  A word has no blank (space) in it; an inner
    tab is the unspecified zone (returns the string 'UNSPECIFIED' in place of a verdict)."""
    body = _lstrip_pad(line)
    r = _split_tick(body)
    if r is None:
        return None
    tick, rest = r
    if not rest.startswith("E "):
        return None
    word = rest[2:]
    # trailing padding
    j = len(word)
    while j > 0 and word[j - 1] in BLANKS:
        j -= 1
    word = word[:j]
    if " " in word:
        return None
    if "\t" in word:
        return "UNSPECIFIED"
    return int(tick), word


def ref_bpm(line: str):
    r = _split_tick(_strip_pad(line))
    if r is None:
        return None
    tick, rest = r
    parts = rest.split(" ")
    if len(parts) != 2 or parts[0] != "B" or not _is_digits(parts[1]):
        return None
    return int(tick), int(parts[1])


def ref_time_signature(line: str):
    r = _split_tick(_strip_pad(line))
    if r is None:
        return None
    tick, rest = r
    parts = rest.split(" ")
    if len(parts) not in (2, 3) or parts[0] != "TS" or not all(_is_digits(p) for p in parts[1:]):
        return None
    return int(tick), int(parts[1]), (int(parts[2]) if len(parts) == 3 else None)


def ref_anchor(line: str):
    """Anchor lines take leading padding only (no trailing blank is written by Moonscraper and the
    property does not promise one)."""
    r = _split_tick(_lstrip_pad(line))
    if r is None:
        return None
    tick, rest = r
    parts = rest.split(" ")
    if len(parts) != 2 or parts[0] != "A" or not _is_digits(parts[1]):
        return None
    return int(tick), int(parts[1])


def ref_quoted_event(line: str):
    """'<tick> = E "<text>"' -> (tick, text) or None (text may contain anything, even quotes)."""
    body = _strip_pad(line)
    r = _split_tick(body)
    if r is None:
        return None
    tick, rest = r
    if not rest.startswith('E "') or len(rest) < 4 or not rest.endswith('"'):
        return None
    return int(tick), rest[3:-1]


def classify_global(text: str):
    """Reference classifier of C09: returns (kind, value) with kind in lyric/section/text, or
    (None, None) where the property is silent (inner quote without a keyword prefix)."""
    if text.startswith("lyric "):
        return "lyric", text[len("lyric "):]
    if text.startswith("section "):
        return "section", text[len("section "):]
    if '"' not in text:
        return "text", text
    return None, None


def is_instrument_line(line: str) -> bool:
    return ref_note(line) is not None or ref_star_power(line) is not None or \
        ref_track_event(line) is not None


def is_sync_line(line: str) -> bool:
    return ref_bpm(line) is not None or ref_time_signature(line) is not None or \
        ref_anchor(line) is not None


# ------------------------------------------------------------------------------------------------
# metadata
# ------------------------------------------------------------------------------------------------
# (PascalCase, snake_case, kind, default) — defaults hard-coded from the documentation
FIELDS = [
    ("Resolution", "resolution", "int", None),
    ("Offset", "offset", "int", 0),
    ("Player2", "player2", "p2", "BASS"),
    ("Difficulty", "difficulty", "int", 0),
    ("PreviewStart", "preview_start", "int", 0),
    ("PreviewEnd", "preview_end", "int", 0),
    ("Genre", "genre", "str", "rock"),
    ("MediaType", "media_type", "str", "cd"),
    ("Name", "name", "str", None),
    ("Artist", "artist", "str", None),
    ("Charter", "charter", "str", None),
    ("Album", "album", "str", None),
    ("Year", "year", "str", None),
    ("MusicStream", "music_stream", "str", None),
    ("GuitarStream", "guitar_stream", "str", None),
    ("RhythmStream", "rhythm_stream", "str", None),
    ("BassStream", "bass_stream", "str", None),
    ("DrumStream", "drum_stream", "str", None),
    ("Drum2Stream", "drum2_stream", "str", None),
    ("Drum3Stream", "drum3_stream", "str", None),
    ("Drum4Stream", "drum4_stream", "str", None),
    ("VocalStream", "vocal_stream", "str", None),
    ("KeysStream", "keys_stream", "str", None),
    ("CrowdStream", "crowd_stream", "str", None),
]
assert len(FIELDS) == 24
FIELD_BY_PASCAL = {f[0]: f for f in FIELDS}


# ------------------------------------------------------------------------------------------------
# notes per second
# ------------------------------------------------------------------------------------------------
def ref_nps(note_start_us: list[int], start_us: int, end_us: int):
    """count{start <= t <= end} / ((end-start) seconds); None when the interval is not positive."""
    if end_us - start_us <= 0:
        return None
    count = sum(1 for t in note_start_us if start_us <= t <= end_us)
    return count / ((end_us - start_us) / 1_000_000)
