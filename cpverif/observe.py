"""observation(chart): the full public state of a parsed chart as nested plain data.

Only public attributes are read.  Two charts are "observably identical" iff their observations are
equal and ``a == b``."""
from __future__ import annotations

from cpverif.model import FIELDS, td_us


def _ts(td):
    return None if td is None else td_us(td)


def obs_event_common(e):
    return [e.tick, _ts(e.timestamp)]


def obs_note(e):
    sp = e.star_power_data
    sus = e.sustain
    return [e.tick, _ts(e.timestamp), _ts(e.end_timestamp), e.note.name, list(e.note.value),
            list(sus) if isinstance(sus, tuple) else sus, e.longest_sustain, e.end_tick,
            e.hopo_state.name, None if sp is None else sp.star_power_event_index]


def obs_track(tr):
    return {
        "instrument": tr.instrument.name,
        "difficulty": tr.difficulty.name,
        "header_tag": tr.header_tag,
        "notes": [obs_note(e) for e in tr.note_events],
        "phrases": [[e.tick, _ts(e.timestamp), e.sustain, e.end_tick] for e in tr.star_power_events],
        "tevents": [[e.tick, _ts(e.timestamp), e.value] for e in tr.track_events],
        "last_note_end": _ts(tr.last_note_end_timestamp),
    }


def obs_metadata(md):
    out = {}
    for _, snake, kind, _ in FIELDS:
        v = getattr(md, snake)
        out[snake] = v.name if kind == "p2" and v is not None and hasattr(v, "name") else v
    return out


def obs_sync(st):
    return {
        "resolution": st.bpm_events.resolution,
        "bpm": [[e.tick, _ts(e.timestamp), e.bpm] for e in st.bpm_events],
        "ts": [[e.tick, _ts(e.timestamp), e.upper_numeral, e.lower_numeral]
               for e in st.time_signature_events],
        "anchors": [[e.tick, _ts(e.timestamp)] for e in st.anchor_events],
    }


def obs_global(g):
    return {
        "text": [[e.tick, _ts(e.timestamp), e.value] for e in g.text_events],
        "section": [[e.tick, _ts(e.timestamp), e.value] for e in g.section_events],
        "lyric": [[e.tick, _ts(e.timestamp), e.value] for e in g.lyric_events],
    }


def observation(chart) -> dict:
    tracks = {}
    keys = []
    for inst, inner in chart.instrument_tracks.items():
        dkeys = []
        for diff, tr in inner.items():
            dkeys.append(diff.name)
            tracks[f"{inst.name}/{diff.name}"] = obs_track(tr)
        keys.append([inst.name, sorted(dkeys)])
    keys.sort()  # mapping iteration order is not part of the observation (dict equality ignores it)
    return {
        "metadata": obs_metadata(chart.metadata),
        "sync": obs_sync(chart.sync_track),
        "global": obs_global(chart.global_events_track),
        "track_keys": keys,          # includes empty inner mappings on purpose (C19)
        "tracks": tracks,
    }


def diff_paths(a, b, path="", out=None, limit=6):
    """Human-readable list of the first differing paths of two observations."""
    if out is None:
        out = []
    if len(out) >= limit:
        return out
    if type(a) is not type(b):
        out.append(f"{path}: {a!r} != {b!r}")
    elif isinstance(a, dict):
        for k in sorted(set(a) | set(b), key=str):
            if k not in a:
                out.append(f"{path}/{k}: missing on left")
            elif k not in b:
                out.append(f"{path}/{k}: missing on right")
            else:
                diff_paths(a[k], b[k], f"{path}/{k}", out, limit)
            if len(out) >= limit:
                break
    elif isinstance(a, list):
        if len(a) != len(b):
            out.append(f"{path}: length {len(a)} != {len(b)}")
        for i, (x, y) in enumerate(zip(a, b)):
            diff_paths(x, y, f"{path}[{i}]", out, limit)
            if len(out) >= limit:
                break
    elif a != b:
        out.append(f"{path}: {a!r} != {b!r}")
    return out
