"""Oracle shared by the three C18 generators (Hypothesis mutations, assembled texts, atheris)."""
from __future__ import annotations

import os
import re
import traceback

from cpverif import core
from cpverif.lib import L

_LONG_DIGITS = re.compile(r"\d{9,}")            # Unicode-aware on purpose (int() accepts all Nd)
_TS_EXP = re.compile(r"TS[ \t]+\d+[ \t]+(\d+)")


def in_domain(text: str) -> bool:
    """The property's quantifier: numeric tokens of at most 8 digits, time-signature exponents < 64."""
    if _LONG_DIGITS.search(text):
        return False
    for m in _TS_EXP.finditer(text):
        try:
            if int(m.group(1)) >= 64:
                return False
        except ValueError:
            return False
    return True


def render_all(chart) -> int:
    """str() and repr() of the chart, its metadata, tracks and every event.  Returns #objects."""
    n = 0
    objs = [chart, chart.metadata, chart.sync_track, chart.global_events_track,
            chart.sync_track.bpm_events]
    objs += list(chart.sync_track.bpm_events)
    objs += list(chart.sync_track.time_signature_events)
    objs += list(chart.sync_track.anchor_events)
    g = chart.global_events_track
    objs += list(g.text_events) + list(g.section_events) + list(g.lyric_events)
    for inner in chart.instrument_tracks.values():
        for tr in inner.values():
            objs.append(tr)
            objs += list(tr.note_events) + list(tr.star_power_events) + list(tr.track_events)
    for o in objs:
        s = str(o)
        r = repr(o)
        if not isinstance(s, str) or not isinstance(r, str):
            raise TypeError(f"str/repr of {type(o).__name__} did not return a string")
        n += 1
    return n


def _innermost_lib_frame(tb) -> str:
    lib = os.path.join(core.REPO, "chartparse") + os.sep
    last = "?"
    for fs in traceback.extract_tb(tb):
        fn = os.path.abspath(fs.filename)
        if fn.startswith(lib):
            last = f"{os.path.basename(fn)}:{fs.name}"
    return last


def judge(text: str):
    """Returns (outcome, stage, violation_message_or_None).
    outcome: 'chart' | exception class name; stage: innermost chartparse frame (or 'rendered')."""
    try:
        chart = L.parse(text)
    except L.DOCUMENTED_ERRORS as e:
        return type(e).__name__, _innermost_lib_frame(e.__traceback__), None
    except (KeyboardInterrupt, SystemExit):
        raise
    except BaseException as e:  # noqa: BLE001
        where = _innermost_lib_frame(e.__traceback__)
        return type(e).__name__, where, (f"parsing leaked {type(e).__name__}: {str(e)[:200]} "
                                         f"(innermost library frame {where})")
    try:
        n = render_all(chart)
    except (KeyboardInterrupt, SystemExit):
        raise
    except BaseException as e:  # noqa: BLE001
        where = _innermost_lib_frame(e.__traceback__)
        return f"render:{type(e).__name__}", where, (f"a returned chart cannot be rendered: "
                                                     f"{type(e).__name__}: {str(e)[:200]} ({where})")
    return "chart", f"rendered:{min(n, 50)}", None


def past_framing(outcome: str, stage: str) -> bool:
    """Non-trivial rule: the text got past section framing / the required-sections test."""
    return outcome == "chart" or not stage.startswith("chart.py")
