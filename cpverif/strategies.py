"""Hypothesis strategies shared by the property checks.  Everything returns plain JSON-able data
(see cpverif/spec.py for the chart model)."""
from __future__ import annotations

from fractions import Fraction

from hypothesis import strategies as st

from cpverif import spec as S
from cpverif.model import FORCED, OPEN, TAP, TempoModel

TIME_LIMIT_S = 10 ** 6          # C01's domain: times below 10^6 seconds
LINE_BREAKS = "\n\r\v\f\x1c\x1d\x1e\x85  "

# Strings that are stable under nothing: not NFC / NFKC normalised, case-folding traps, astral plane,
# format characters.  None of them is white space, a digit or a line boundary.  Payload generators mix
# them in because "verbatim" must mean verbatim.
UNICODE_ODDITIES = ["e\u0301", "\u212b", "\u2126", "\u1100\u1161", "\ufb01", "\uff21\uff42", "\u200d",
                    "\u00ad", "\u0130", "\u00df", "\u01c5", "\U0001d11e", "\U0001f3b8", "\u0303x",
                    "\u1e9e", "\u03a9\u0301",
                    # text that LOOKS like a damaged or escaped encoding (candidates for a "helpful" repair):
                    # UTF-8 read as cp1252, percent / quoted-printable / entity / backslash escapes
                    "\u00c3\u00a9tude", "\u00c2\u00a92020", "don\u00e2\u20ac\u2122t", "\u00c3\u00bcber", "\u00c3\u00b1",
                    "%C3%A9", "=C3=A9", "&#233;", "\\u00e9", "\\xe9", "\u00e9"]

# Strings that mean something to OTHER layers (markup, format strings, escapes, regex, numbers): a payload
# is carried verbatim, whatever it looks like.
# whole payloads wrapped in a pair of delimiters (candidates for "helpful" unwrapping)
WRAPPED = ["[idle]", "[section Intro]", "[lyric Oh]", "[]", "[x]", "(x)", "{x}", "<x>", "'x'", "`x`", "[a] [b]", "[[x]]",
           "(section a)", "{lyric b}", " x ", "\tx\t", "[x", "x]"]
MARKUP_ODDITIES = ["<i>", "</i>", "<color=#ff0000>", "<", ">", "<>", "1 < 2 > 1", "&amp;", "&lt;", "%s", "%d%%", "{0}",
                   "{}", "\\n", "\\t", "\\", "$1", "(.*)", "[a-z]+", "^$", "\\d", "../", "a/b", "C:\\x", "NULL", "None",
                   "true", "0x1F", "1e5", "+5", "-0", "#", ";", "//", "'", "`", "|", "*", "?", "!", "~", "@",
                   "/*", "*/", "--", "${x}", "%(x)s", "<!--", "-->", "\\r", "\\x41", "a//b", "http://x", "#x", ";x", "x;",
                   "x#", "\\\\", "x\\"]

# ------------------------------------------------------------------------------------------------
# tempo maps
# ------------------------------------------------------------------------------------------------
resolutions = st.one_of(
    st.sampled_from([192, 192, 480, 96, 100, 960, 120]),
    st.integers(1, 12),
    st.integers(1, 2000),
    st.integers(1, 10 ** 6),
)

bpm_values = st.one_of(
    st.integers(20_000, 400_000),
    st.integers(20_000, 400_000),
    st.integers(1, 999),
    st.integers(0, 8).flatmap(lambda k: st.integers(10 ** k, 10 ** (k + 1))),
    st.sampled_from([1, 999, 1000, 1118, 20548, 21952, 120_000, 10 ** 9 - 1, 10 ** 9]),
    # round "musical" tempos: at the usual resolutions the exact time of many ticks is exactly a half
    # microsecond, where two float computations of one time that differ only in operation order round apart
    st.sampled_from([120_000, 104_000, 96_000, 140_000, 90_000, 150_000, 200_000, 60_000, 180_000, 240_000,
                     128_000, 125_000, 100_000, 93_750, 75_000, 160_000]),
)

extreme_bpm_values = st.one_of(
    st.sampled_from([1, 2, 10, 999, 10 ** 9, 10 ** 9 - 1, 10 ** 8, 5 * 10 ** 8]),
    st.integers(1, 2000),
    st.integers(10 ** 8, 10 ** 9),
    bpm_values,
)


@st.composite
def tempo_maps(draw, max_segments: int = 24, values=bpm_values, res=resolutions,
               budget_s: int = TIME_LIMIT_S // 2, min_segments: int = 1, allow_big: bool = True):
    """{"res": r, "tempo": [[tick, n], ...]} constructed (not filtered) so that the last tempo
    change happens before ``budget_s`` seconds and at least one more tick fits below the limit."""
    r = draw(res)
    nseg = draw(st.integers(min_segments, max_segments))
    # size amplification: one map in twelve is LONG (65..300 tempo events, beyond any plausible
    # block / chunk / bisect threshold in a lookup); it is built by cycling a short drawn pattern so that
    # the number of draws stays small
    pattern = None
    if allow_big and draw(st.integers(0, 11)) == 0:
        nseg = draw(st.sampled_from([65, 66, 70, 129, 130, 200, 300]))
        pattern = draw(st.lists(st.tuples(st.integers(1, 5), st.integers(1, max(1, min(4 * r, 500))), values),
                                min_size=1, max_size=6))
    tempo = []
    tick = 0
    elapsed = Fraction(0)
    budget = Fraction(budget_s)
    prev_spt = None
    for k in range(nseg):
        if pattern is not None:
            pg, pgap, n = pattern[k % len(pattern)]
        elif k > 0 and draw(st.integers(0, 6)) == 0:
            n = tempo[-1][1]          # a tempo event that restates the tempo already in force
        elif k > 0 and draw(st.integers(0, 9)) == 0:
            # a tempo in a simple ratio to the one in force (double / half time, x3, x1000)
            p = tempo[-1][1]
            n = draw(st.sampled_from([p * 2, max(1, p // 2), p * 3, max(1, p // 3), min(p * 1000, 10 ** 9), max(1, p // 1000)]))
            n = max(1, min(n, 10 ** 9))
        else:
            n = draw(values)
        if k > 0:
            remaining = budget - elapsed
            max_gap = int(remaining / prev_spt)
            if max_gap < 1:
                break
            gap_choice = pg if pattern is not None else draw(st.integers(0, 6))
            if pattern is not None:
                gap = 1 if pg == 1 else 2 if pg == 2 else pgap
                gap = max(1, min(gap, max_gap))
                tick += gap
                elapsed += gap * prev_spt
                gap_choice = -1
            if gap_choice == -1:
                pass
            elif gap_choice == 0:
                gap = 1
            elif gap_choice == 1:
                gap = 2
            elif gap_choice in (2, 3):
                gap = draw(st.integers(1, 4 * r))
            elif gap_choice == 4:
                gap = draw(st.integers(1, 64))
            elif gap_choice == 6:
                # a LONG stretch: a sizeable share of what the time budget leaves (under a fast tempo this
                # puts the next tempo change at a tick of 10^10 .. 10^13)
                gap = max_gap // draw(st.sampled_from([1, 2, 3, 10, 1000]))
            else:
                gap = draw(st.integers(1, 10 ** 6))
            if gap_choice != -1:
                gap = max(1, min(gap, max_gap))
                tick += gap
                elapsed += gap * prev_spt
        spt = Fraction(60_000, n * r)
        # the new tempo must let at least a couple of ticks fit below the overall limit
        if (TIME_LIMIT_S - elapsed) / spt < 3:
            if k == 0:
                n = 10 ** 9  # fastest tempo always fits
                spt = Fraction(60_000, n * r)
            else:
                tick_removed = True  # noqa: F841
                # undo this segment: drop it
                break
        tempo.append([tick, n])
        prev_spt = spt
    if not tempo:
        tempo = [[0, 120_000]]
    return {"res": r, "tempo": tempo}


def interesting_ticks(tm: TempoModel, max_tick: int) -> list[int]:
    out = set()
    for i, t in enumerate(tm.ticks):
        for d in (-1, 0, 1, 2):
            if 0 <= t + d <= max_tick:
                out.add(t + d)
        nxt = tm.ticks[i + 1] if i + 1 < len(tm.ticks) else max_tick
        if nxt > t + 3:
            mid = (t + nxt) // 2
            if mid <= max_tick:
                out.add(mid)
    last = tm.ticks[-1]
    for d in (tm.res, 4 * tm.res, 1000, 10 ** 5):
        if last + d <= max_tick:
            out.add(last + d)
    out.add(max_tick)
    out.add(0)
    return sorted(out)


def grid_ticks(tm: TempoModel, max_tick: int) -> list[int]:
    """Ticks on the musical grid: whole beats, whole 4/4 (and 3/4, 6/8) measures, simple fractions of a
    beat, also counted from each of the first tempo changes (positions with a meaning to editors)."""
    r = tm.res
    out = set()
    for base in [0] + tm.ticks[1:4]:
        for k in (1, 2, 3, 4, 8, 16, 64):
            for unit in (r, 4 * r, 3 * r, r // 2, r // 3, r // 4, 6 * r // 2):
                t = base + k * unit
                if 0 <= t <= max_tick:
                    out.add(t)
    return sorted(out) or [0]


def tick_strategy(tm: TempoModel, max_tick: int):
    cands = interesting_ticks(tm, max_tick)
    near = min(max_tick, tm.ticks[-1] + 8 * tm.res)
    return st.one_of(st.sampled_from(cands), st.sampled_from(cands), st.integers(0, near),
                     st.integers(0, max_tick), st.sampled_from(grid_ticks(tm, max_tick)))


# ------------------------------------------------------------------------------------------------
# instrument tracks
# ------------------------------------------------------------------------------------------------
lane_subsets = st.one_of(
    st.integers(1, 31),                 # bit mask over lanes 0..4
    st.sampled_from([1, 2, 4, 8, 16]),  # single notes are the common case
    st.just(0),                         # 0 = open note
)


def render_note_items(tick: int, mask: int, lens, tap, forced, lane_order=None, flag_pos=None) -> list[list]:
    """Moonscraper order: lane lines ascending (or ``lane_order``), then forced (5), then tap (6).
    ``lens`` : list of 5 lengths (used for active lanes) or int for open.  ``tap``/``forced`` are
    None or the (ignored) length written on the flag line."""
    items = []
    if mask == 0:
        items.append([tick, "N", OPEN, lens if isinstance(lens, int) else lens[0]])
    else:
        lanes = [i for i in range(5) if mask >> i & 1]
        if lane_order:
            lanes = sorted(lanes, key=lambda i: lane_order[i])
        for i in lanes:
            items.append([tick, "N", i, lens[i]])
    flags = []
    if forced is not None:
        flags.append([tick, "N", FORCED, forced])
    if tap is not None:
        flags.append([tick, "N", TAP, tap])
    if flag_pos and mask != 0:
        # flag lines before / between the lane lines of a lane note (never in front of an open-note line)
        for f, pos in zip(flags, flag_pos):
            items.insert(pos % (len(items) + 1), f)
        return items
    return items + flags


@st.composite
def note_list(draw, tick_st, max_notes: int, max_len_for, allow_forced_first: bool = False,
              min_notes: int = 0, landmarks=(), res: int = 0):
    """List of notes {tick, mask, lens, tap, forced} with strictly increasing ticks.
    ``max_len_for(tick)`` bounds sustains so that end ticks stay inside the time domain.
    ``landmarks``: ticks that mean something elsewhere in the chart (tempo changes, ...); sustains are
    also drawn to end exactly on / next to the next note, the note after it and the landmarks, and to
    be simple fractions / multiples of the resolution."""
    ticks = sorted(draw(st.sets(tick_st, min_size=min_notes, max_size=max_notes)))
    notes = []
    for j, t in enumerate(ticks):
        mask = draw(lane_subsets)
        mx = max(0, max_len_for(t))
        nxt = ticks[j + 1] - t if j + 1 < len(ticks) else 50
        related = {nxt - 1, nxt, nxt + 1}
        if j + 2 < len(ticks):
            related |= {ticks[j + 2] - t, ticks[j + 2] - t - 1}
        if j:
            related.add(t - ticks[j - 1])
        for a in landmarks:
            if a > t:
                related |= {a - t - 1, a - t, a - t + 1}
                if len(related) > 16:
                    break
        if res:
            related |= {res, res // 2, res // 3, res // 4, 2 * res, 4 * res, res - 1, res + 1}
        related = sorted(x for x in related if 0 < x <= mx) or [0]
        len_st = st.one_of(st.just(0), st.just(0), st.integers(0, min(mx, max(1, nxt))),
                           st.integers(0, min(mx, 5000)), st.integers(0, mx), st.sampled_from(related))
        style = draw(st.integers(0, 3))
        if mask == 0:
            lens = draw(len_st)
        elif style == 0:
            lens = [0] * 5
        elif style == 1:
            v = draw(len_st)
            lens = [v] * 5
        else:
            lens = [draw(len_st) for _ in range(5)]
        flag = draw(st.integers(0, 9))
        tap = draw(st.sampled_from([0, 0, 37])) if flag in (7, 9) else None
        forced = draw(st.sampled_from([0, 0, 11])) if flag in (8, 9) else None
        if j == 0 and not allow_forced_first:
            forced = None
        notes.append({"tick": t, "mask": mask, "lens": lens, "tap": tap, "forced": forced})
    return notes


word_alphabet = st.characters(
    min_codepoint=33, max_codepoint=0x2FF,
    blacklist_characters=LINE_BREAKS + " \t\xa0\x1f",
    blacklist_categories=("Cc", "Cs", "Zs", "Zl", "Zp"))
words = st.one_of(st.sampled_from(["solo", "soloend", "ENABLE_CHART_DYNAMICS", "x", "a=b", '"q"', "*", "T", "O", "H", "N", "S", "5",
                                   "end", "forced", "tap"]),
                  st.sampled_from(["solo", "soloend", "ENABLE_CHART_DYNAMICS", "ENHANCED_OPENS", "[ENHANCED_OPENS]", "*", "T",
                                   "O", "H", "P", "N", "S", "E", "5", "6", "7", "end", "forced", "tap", "open", "idle",
                                   "play", "ow_face_on", "ow_face_off", "mix_3_drums0d", "map", "HandMap_Default", "sp",
                                   "starpower", "ghl", "disco"]),
                  st.text(alphabet=word_alphabet, min_size=1, max_size=12),
                  st.lists(st.sampled_from(UNICODE_ODDITIES + ["a", "Z", "_"]), min_size=1, max_size=3).map("".join),
                  st.lists(st.sampled_from([m for m in MARKUP_ODDITIES if " " not in m] + ["a", "x"]), min_size=1,
                           max_size=3).map("".join))


# blank padding longer than any plausible line buffer / length guard (2^16 and beyond): a line is a line
HUGE_PADS = [" " * 70000, "\t" * 66000, " \t" * 40000]

# tick offsets around the widths of machine integers and of the float mantissa: nothing in the format
# bounds a tick, so a section's meaning must survive being moved up by any of them
BIG_OFFSETS_32 = [2 ** 31 - 40, 2 ** 32 - 40, 2 ** 32, 2 ** 33 + 7]
BIG_OFFSETS_64 = [2 ** 53 - 40, 2 ** 63 - 40, 2 ** 64 - 40, 2 ** 64, 10 ** 20]


def lift_items(draw, items, res: int, one_in: int = 8, allow64: bool = True):
    """With probability 1/one_in: (items moved up by a big offset, single fastest tempo, resolution big
    enough for every time to stay inside the timedelta range); else None."""
    if draw(st.integers(0, one_in - 1)) != 0:
        return None
    offs = list(BIG_OFFSETS_32)
    if allow64:
        offs += BIG_OFFSETS_64
    off = draw(st.sampled_from(offs))
    if off > 2 ** 34 and res < 960:
        res = 960
    return [[it[0] + off] + list(it[1:]) for it in items], [[0, 10 ** 9]], res


def merge_track_items(notes, phrases, tevents, sp_first: bool = False) -> list[list]:
    """File order: by tick; within a tick N lines, then S, then E (Moonscraper)."""
    keyed = []
    for nt in notes:
        for k, it in enumerate(render_note_items(nt["tick"], nt["mask"], nt["lens"], nt["tap"],
                                                 nt["forced"], nt.get("lane_order"), nt.get("flag_pos"))):
            keyed.append((nt["tick"], 1 if not sp_first else 2, k, it))
    for k, (t, ln) in enumerate(phrases):
        keyed.append((t, 2 if not sp_first else 1, k, [t, "S", 2, ln]))
    for k, (t, w) in enumerate(tevents):
        keyed.append((t, 3, k, [t, "E", w]))
    keyed.sort(key=lambda x: (x[0], x[1], x[2]))
    return [x[3] for x in keyed]


@st.composite
def track_specs(draw, tm: TempoModel, max_tick: int, max_notes: int = 20, max_phrases: int = 4,
                max_tevents: int = 3, min_notes: int = 0):
    tick_st = tick_strategy(tm, max_tick)
    notes = draw(note_list(tick_st, max_notes, lambda t: max_tick - t, min_notes=min_notes,
                           landmarks=tm.ticks[1:6], res=tm.res))
    praw = draw(st.lists(st.tuples(tick_st, st.integers(0, 10)), max_size=max_phrases))
    phrases = []
    for t, style in sorted(praw):
        mx = max_tick - t
        if style == 0:
            ln = 0
        elif style < 4:
            ln = min(mx, draw(st.integers(0, 4 * tm.res)))
        else:
            ln = min(mx, draw(st.integers(0, max(1, mx))))
        phrases.append([t, ln])
    tev = sorted(draw(st.lists(st.tuples(tick_st, words), max_size=max_tevents)),
                 key=lambda x: x[0])
    return {"notes": notes, "phrases": phrases, "tevents": [list(x) for x in tev]}


# ------------------------------------------------------------------------------------------------
# global events
# ------------------------------------------------------------------------------------------------
text_alphabet = st.characters(
    min_codepoint=32, max_codepoint=0x2FF,
    blacklist_characters=LINE_BREAKS + "\x1f",
    blacklist_categories=("Cc", "Cs", "Zl", "Zp"))

plain_text = st.text(alphabet=st.characters(min_codepoint=32, max_codepoint=0x2FF,
                                            blacklist_characters=LINE_BREAKS + '"\x1f',
                                            blacklist_categories=("Cc", "Cs", "Zl", "Zp")),
                     min_size=0, max_size=16)

# event names with a meaning to Clone Hero / Moonscraper / FeedBack / Rock Band conversions (candidates for
# special treatment by a "feature"); to this library each is an opaque text
KNOWN_GLOBAL_EVENTS = ["end", "music_start", "music_end", "coda", "idle", "play", "half_tempo", "normal_tempo",
                       "crowd_noclap", "crowd_clap", "crowd_intense", "crowd_normal", "crowd_mellow", "crowd_realtime",
                       "crowd_lighters_off", "crowd_lighters_slow", "crowd_lighters_fast", "band_jump",
                       "sync_head_bang", "sync_wag", "lighting (chase)", "lighting (strobe)", "lighting ()", "verse",
                       "chorus", "solo", "soloend", "preview", "Default", "ENABLE_CHART_DYNAMICS", "section end",
                       "section prc_intro", "section [prc_verse_1]", "lyric +", "lyric #", "lyric ^", "lyric -",
                       "lyric to-", "lyric =geth=", "lyric er$", "lyric §", "phrase_start", "phrase_end",
                       # keywords of neighbouring dialects at the START of a text (Rock Band practice sections,
                       # other spellings of the two prefixes): plain texts to this library
                       "prc_intro", "prc_", "[prc_verse_1]", "sectionIntro", "section_intro", "Section Intro", "SECTION x",
                       "sec Intro", "lyrics hi", "lyric_hi", "Lyric hi", "LYRIC hi", "lyr hi", "text x", "event x",
                       "phrase_start 1", "section", "lyric", "section\tx", "lyric\tx"]
KNOWN_TRACK_WORDS = ["solo", "soloend", "ENABLE_CHART_DYNAMICS", "ENHANCED_OPENS", "[ENHANCED_OPENS]", "*", "T", "O", "H",
                     "P", "N", "S", "E", "5", "6", "7", "end", "forced", "tap", "open", "idle", "play", "ow_face_on",
                     "ow_face_off", "mix_3_drums0d", "map", "HandMap_Default", "sp", "starpower", "ghl", "disco"]

global_texts = st.one_of(
    st.sampled_from(["phrase_start", "phrase_end", "section Intro", "lyric Lo-", "section Solo 1",
                     "lyric rem", "music_start", "end"]),
    st.sampled_from(KNOWN_GLOBAL_EVENTS),
    plain_text,
    plain_text.map(lambda s: "lyric " + s),
    plain_text.map(lambda s: "section " + s),
    st.lists(st.sampled_from(UNICODE_ODDITIES + ["lyric ", "section ", "a", " "]), min_size=1,
             max_size=4).map("".join),
    st.lists(st.sampled_from(MARKUP_ODDITIES + ["lyric ", "section ", "Oh", " "]), min_size=1,
             max_size=4).map("".join),
    st.sampled_from(WRAPPED),
)


SONG_EXTRAS = [
    ("Offset", st.sampled_from(["0", "1", "5", "120", "99999"])),
    ("PreviewStart", st.sampled_from(["0", "30", "4500"])),
    ("PreviewEnd", st.sampled_from(["0", "60", "99999"])),
    ("Difficulty", st.sampled_from(["0", "3", "6"])),
    ("Player2", st.sampled_from(["bass", "rhythm"])),
    ("Name", st.sampled_from(['"Song"', '"e\u0301t\u00e9"', '"Offset = 5"', '"Screen Resolution = 96"', '"Resolution = 7"'])),
    ("Artist", '"Artist"'), ("Charter", st.sampled_from(['"someone"', '"Resolution = 1"'])),
    ("Album", st.sampled_from(['"Album"', '"Offset = 9"', '"Player2 = rhythm"'])), ("Year", '", 2018"'),
    # keys that merely END in a field name the library knows (a line is its field's line only as a whole)
    ("HiResolution", st.sampled_from(["96", "1", "480"])), ("MaxOffset", "7"), ("OldResolution", "5"),
    ("Genre", st.sampled_from(['"rock"', '"metal"'])), ("MediaType", '"cd"'),
    ("MusicStream", '"song.ogg"'), ("GuitarStream", '"guitar.ogg"'), ("DrumStream", '"drums.ogg"'),
    # fields other tools write or read (song.ini spellings included); the format documentation of this
    # library knows none of them: they are carried by the file and mean nothing
    ("HopoFrequency", st.sampled_from(["170", "0", "1"])), ("hopo_frequency", "170"), ("EighthNoteHopo", "1"),
    ("FiveLaneDrums", "1"), ("SustainCutoffThreshold", st.sampled_from(["64", "1000"])), ("MultiplierNote", "116"),
    ("EndEvents", "1"), ("Delay", st.sampled_from(["500", "-500"])), ("StarPowerNote", "103"),
    ("ProDrums", "True"), ("Modchart", '"yes"'), ("Offset2", "3"),
]

# ------------------------------------------------------------------------------------------------
# whole charts
# ------------------------------------------------------------------------------------------------
@st.composite
def chart_specs(draw, max_segments: int = 8, max_tracks: int = 2, max_notes: int = 16,
                max_events: int = 5, max_ts: int = 3, max_anchors: int = 2, tempo_values=bpm_values,
                headers=None, min_tracks: int = 0, min_notes: int = 0, limit_s: int = TIME_LIMIT_S,
                max_tick_cap: int | None = None, anchor_max: int = 10 ** 11, res=None,
                with_song: bool = True, with_layout: bool = True, allow_long_tracks: bool = True,
                long_one_in: int = 10):
    """A well-formed chart spec plus the generation-side facts a check may want:
    returns {"spec": spec, "res": r, "tempo": [...], "max_tick": M, "tracks_model": {...}}."""
    tmap = draw(tempo_maps(max_segments=max_segments, values=tempo_values,
                           budget_s=limit_s // 2, **({"res": res} if res is not None else {})))
    if max_tick_cap is not None:
        tmap["tempo"] = [x for x in tmap["tempo"] if x[0] < max_tick_cap // 2] or [[0, tmap["tempo"][0][1]]]
    tm = TempoModel(tmap["res"], tmap["tempo"])
    max_tick = max(tm.max_tick_within(limit_s) - 1, tm.ticks[-1])
    if max_tick_cap is not None:
        max_tick = max(min(max_tick, max_tick_cap), tm.ticks[-1])
    tick_st = tick_strategy(tm, max_tick)
    # sync section
    ts_ticks = sorted(draw(st.sets(tick_st.filter(lambda t: t > 0), max_size=max_ts)))
    ts_exp = st.one_of(st.none(), st.integers(0, 6), st.integers(0, 6), st.sampled_from([7, 8, 10, 16]))
    sync = [[0, "TS", draw(st.integers(1, 16)), draw(ts_exp)]]
    for t in ts_ticks:
        sync.append([t, "TS", draw(st.one_of(st.integers(1, 16), st.sampled_from([0, 17, 32, 255]))), draw(ts_exp)])
    for t, n in tmap["tempo"]:
        sync.append([t, "B", n])
    for t in sorted(draw(st.sets(st.one_of(tick_st, st.sampled_from(tm.ticks)), max_size=max_anchors))):
        # an anchor's literal time pins nothing: drawn at random, or (as in real charts) equal / very close
        # to what the tempo map says for its tick
        if draw(st.booleans()):
            us = draw(st.integers(0, anchor_max))
        else:
            us = max(0, int(tm.exact_us(t)) + draw(st.sampled_from([0, 1, -1, 7, -7, 500, -500, 999, -999, 1001, 10 ** 4])))
            if us > anchor_max:          # the caller bounds literal values (C18: at most 8 digits)
                us = draw(st.integers(0, anchor_max))
        sync.append([t, "A", us])
    order = {"TS": 0, "B": 1, "A": 2}
    sync.sort(key=lambda it: (it[0], order[it[1]]))
    # global events
    evs = draw(st.lists(st.tuples(tick_st, global_texts), max_size=max_events))
    evs = sorted(evs, key=lambda x: x[0])
    # tracks
    hdrs = headers if headers is not None else S.HEADER_LIST
    ntr = draw(st.integers(min_tracks, max_tracks))
    chosen = draw(st.lists(st.sampled_from(hdrs), min_size=ntr, max_size=ntr, unique=True)) \
        if ntr else []
    tracks = {}
    tracks_model = {}
    amplify = allow_long_tracks and draw(st.integers(0, max(0, long_one_in - 1))) == 0
    for h in chosen:
        tsp = draw(track_specs(tm, max_tick, max_notes=max_notes, min_notes=min_notes))
        if amplify and tsp["notes"]:
            # LONG track: the drawn block of notes / phrases / track events repeated with shifted ticks
            span = max([n["tick"] for n in tsp["notes"]] + [p[0] + p[1] for p in tsp["phrases"]]
                       + [e[0] for e in tsp["tevents"]]) + 1
            reps = min(draw(st.sampled_from([20, 70, 140])), max(1, (max_tick + 1) // span - 1))
            ends_ok = [n for n in tsp["notes"]]
            notes, phrases, tev = [], [], []
            for k in range(reps):
                off = k * span
                for n in ends_ok:
                    mx = max(0, max_tick - (n["tick"] + off))
                    lens = min(n["lens"], mx) if isinstance(n["lens"], int) else [min(x, mx) for x in n["lens"]]
                    notes.append(dict(n, tick=n["tick"] + off, lens=lens,
                                      forced=n["forced"] if (k > 0 or n is not ends_ok[0]) else None))
                phrases += [[p[0] + off, min(p[1], max(0, max_tick - p[0] - off))] for p in tsp["phrases"]]
                tev += [[e[0] + off, e[1]] for e in tsp["tevents"]]
            tsp = {"notes": notes, "phrases": phrases, "tevents": tev}
        tracks_model[h] = tsp
        tracks[h] = merge_track_items(tsp["notes"], tsp["phrases"], tsp["tevents"])
    spec = {"res": tmap["res"], "sync": sync, "events": [list(e) for e in evs], "tracks": tracks}
    # [Song] fields other than Resolution look irrelevant to everything downstream -- which is exactly
    # why half of the charts carry some, with non-default values, around the Resolution line
    if with_song and draw(st.booleans()):
        picks = draw(st.lists(st.sampled_from(SONG_EXTRAS), unique_by=lambda x: x[0], max_size=6))
        song = [[name, draw(val) if not isinstance(val, str) else val] for name, val in picks]
        song.insert(draw(st.integers(0, len(song))), ["Resolution", str(tmap["res"])])
        spec["song"] = song
    # line formatting (blank / tab padding around body lines, zero-prefixed ticks) is another dimension
    # that "cannot matter"; so are CRLF line ends, the order of the sections and unknown sections
    if draw(st.integers(0, 2)) == 0:
        spec["fmt"] = draw(st.integers(1, 10 ** 6))
    if with_layout:
        lay = draw(st.integers(0, 11))
        if lay in (0, 1):
            spec["nl"] = "\r\n"
        if lay in (1, 2, 3):
            names = ["Song", "SyncTrack", "Events"] + list(tracks)
            spec["order"] = list(draw(st.permutations(names)))
        if lay in (3, 4):
            spec["raw_sections"] = [[draw(st.sampled_from(["Foo", "ExpertDrumsReal", "PART VOCALS", "Song2"])),
                                     draw(st.lists(st.sampled_from(["  0 = N 0 0", "  x", "", "  0 = B 1", " }"]),
                                                   max_size=3))]]
    return {"spec": spec, "res": tmap["res"], "tempo": tmap["tempo"], "max_tick": max_tick,
            "tracks_model": tracks_model}


def unsorted_variant(spec, draw):
    """The same chart with its tick groups permuted, over a single tempo (the fastest of the original map, so
    every tick is reached no later than before).  Such a chart parses (the lookup hints cannot object over a
    single tempo) to tracks whose events are not in tick order; forced flags are dropped because a forced first
    note is a documented ValueError."""
    spec = dict(spec)
    fastest = max(it[2] for it in spec["sync"] if it[1] == "B")
    spec["sync"] = [[0, "TS", 4], [0, "B", fastest]]
    tracks = {}
    for h, items in spec["tracks"].items():
        groups: dict = {}
        for it in items:
            if it[1] == "N" and it[2] == 5:
                continue
            groups.setdefault(it[0], []).append(it)
        order = list(groups)
        if len(order) > 1:
            if len(order) > 60:
                # long tracks: a handful of transpositions instead of a full permutation (cheap to draw)
                for _ in range(draw(st.integers(1, 6))):
                    i, j = draw(st.integers(0, len(order) - 1)), draw(st.integers(0, len(order) - 1))
                    order[i], order[j] = order[j], order[i]
            else:
                order = list(draw(st.permutations(order)))
        tracks[h] = [it for t in order for it in groups[t]]
    spec["tracks"] = tracks
    ev = list(spec["events"])
    if len(ev) > 1:
        ev = list(draw(st.permutations(ev)))
    spec["events"] = ev
    return spec

