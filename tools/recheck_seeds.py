#!/venv/bin/python
"""Regression of the sensitivity record: re-run the targeted quick check against EVERY stored seeded
change (seeded/<name>/patch.diff applied to a scratch copy of /repo HEAD under /tmp) at a given
VERIF_SEED, several copies in parallel, and write seeded/RECHECK_seed<N>.json.

    tools/recheck_seeds.py [--seed 1] [--jobs 4] [--only C07] [--names C07-k,C08-b] [--cpv-jobs 4]

A change that a check no longer catches is printed as MISSED (exit status 1 of this tool). Nothing
is written into /repo; the scratch copies are removed.
"""
from __future__ import annotations

import argparse
import concurrent.futures
import glob
import json
import os
import shutil
import subprocess
import sys
import tempfile
import time

VERIF = os.path.dirname(os.path.dirname(os.path.abspath(__file__)))


def run_one(name, seed, tier, cpv_jobs, replay_check=False):
    d = os.path.join(VERIF, "seeded", name)
    meta = json.load(open(os.path.join(d, "meta.json")))
    props = sorted({k.split("@")[0] for k, v in meta.get("checks", {}).items() if v.get("exit") == 1}) \
        or [meta.get("property") or name.split("-")[0]]
    tmp = tempfile.mkdtemp(prefix=f"recheck_{name}_", dir="/tmp")
    copy = os.path.join(tmp, "repo")
    os.makedirs(copy)
    out = {"name": name, "checks": {}}
    try:
        subprocess.run(f"git -C /repo archive HEAD | tar -x -C {copy}", shell=True, check=True)
        ap = subprocess.run(["git", "apply", "--whitespace=nowarn", "-p1", os.path.join(d, "patch.diff")],
                            cwd=copy, capture_output=True, text=True)
        if ap.returncode:
            ap = subprocess.run(["patch", "-p1", "-i", os.path.join(d, "patch.diff")], cwd=copy,
                                capture_output=True, text=True)
        if ap.returncode:
            out["error"] = "patch does not apply"
            return out
        env = dict(os.environ, PYTHONDONTWRITEBYTECODE="1", CPV_REPO=copy, VERIF_SEED=str(seed),
                   CPV_JOBS=str(cpv_jobs))
        for p in props:
            t0 = time.time()
            c = subprocess.run([os.path.join(VERIF, "vcheck"), p, "--tier", tier, "--no-evidence"], cwd=VERIF,
                               env=env, capture_output=True, text=True, timeout=3600)
            detail = [l.strip() for l in c.stdout.splitlines() if l.startswith("  ") and "part " not in l and ":" in l]
            out["checks"][p] = {"exit": c.returncode, "wall_s": round(time.time() - t0, 1),
                                "detail": (detail or [""])[0][:200]}
            if replay_check and c.returncode == 1:
                # every replay file named by a VIOLATION line must fail on the changed tree and pass on /repo
                paths = [l.split("replay=", 1)[1].strip() for l in c.stdout.splitlines()
                         if l.startswith("VIOLATION ") and "replay=" in l]
                verdicts = []
                for rp in paths[:2]:
                    r1 = subprocess.run([os.path.join(VERIF, "vcheck"), p, "--replay", rp], cwd=VERIF, env=env,
                                        capture_output=True, text=True, timeout=1800)
                    r0 = subprocess.run([os.path.join(VERIF, "vcheck"), p, "--replay", rp], cwd=VERIF,
                                        env=dict(env, CPV_REPO="/repo"), capture_output=True, text=True, timeout=1800)
                    verdicts.append([rp, r1.returncode, r0.returncode])
                out["checks"][p]["replay"] = verdicts
                out["checks"][p]["replay_ok"] = bool(verdicts) and all(v[1] == 1 and v[2] == 0 for v in verdicts)
        return out
    finally:
        shutil.rmtree(tmp, ignore_errors=True)


def _dump(results, args):
    suffix = "" if not (args.only or args.names) else "_partial"
    with open(os.path.join(VERIF, "seeded", f"RECHECK_seed{args.seed}_{args.tier}{suffix}.json"), "w") as f:
        json.dump({k: results[k] for k in sorted(results)}, f, indent=1)
        f.write("\n")


def main():
    ap = argparse.ArgumentParser()
    ap.add_argument("--seed", default="1")
    ap.add_argument("--tier", default="quick")
    ap.add_argument("--jobs", type=int, default=4)
    ap.add_argument("--cpv-jobs", type=int, default=4)
    ap.add_argument("--only", default=None)
    ap.add_argument("--names", default=None)
    ap.add_argument("--replay-check", action="store_true")
    args = ap.parse_args()
    names = sorted(os.path.basename(os.path.dirname(p)) for p in glob.glob(os.path.join(VERIF, "seeded", "*", "meta.json")))
    if args.only:
        names = [n for n in names if n.split("-")[0] == args.only]
    if args.names:
        names = [n for n in names if n in args.names.split(",")]
    results = {}
    missed = []
    with concurrent.futures.ThreadPoolExecutor(args.jobs) as ex:
        futs = {ex.submit(run_one, n, args.seed, args.tier, args.cpv_jobs, args.replay_check): n for n in names}
        for f in concurrent.futures.as_completed(futs):
            n = futs[f]
            try:
                r = f.result()
            except Exception as e:  # noqa: BLE001
                r = {"name": n, "error": repr(e), "checks": {}}
            results[n] = r
            tags = []
            for p, c in r["checks"].items():
                tag = {0: "MISSED", 1: "caught", 2: "HARNESS-ERROR"}.get(c["exit"], str(c["exit"]))
                tags.append(f"{p}:{tag}({c['wall_s']}s)" + ("" if "replay_ok" not in c else
                                                           " replay-ok" if c["replay_ok"] else f" REPLAY-BAD{c['replay']}"))
                if c["exit"] != 1:
                    missed.append(f"{n}/{p}")
            print(n, r.get("error", ""), " ".join(tags), flush=True)
            if len(results) % 10 == 0:
                _dump(results, args)
    _dump(results, args)
    print(f"{len(names)} seeds, not caught: {missed}")
    return 1 if missed else 0


if __name__ == "__main__":
    sys.exit(main())
