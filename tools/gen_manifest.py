#!/venv/bin/python
"""Regenerates /verif/MANIFEST.json from the table below and validates it against the schema when
jsonschema is available.  Run after registering a check:  tools/gen_manifest.py"""
from __future__ import annotations

import json
import os
import sys

VERIF = os.path.dirname(os.path.dirname(os.path.abspath(__file__)))

# id -> (technique, level text, level note, design ref)
CHECKS: dict[str, tuple[str, str, str, str]] = {}
NOT_APPLICABLE: dict[str, str] = {}


CATEGORY: dict[str, str] = {}


def reg(pid, technique, text, note, ref, category="exploration"):
    CHECKS[pid] = (technique, text, note, ref)
    CATEGORY[pid] = category


reg("C08",
    "bounded-exhaustive enumeration of every tempo value + seeded random/Hypothesis generated sync "
    "lines and charts against an exact-value oracle",
    "Exploration by generated-input search: every n in 1..3*10^5 (quick) / 1..10^7 (thorough) is decoded "
    "through the public line and event constructors and compared with n/1000; log-uniform random n up "
    "to 10^15, the complete (u,l) time-signature grid, random anchors, Hypothesis-generated padded "
    "lines with digit strings up to 1000 digits and whole sync sections parsed with Chart.from_file "
    "(ticks also moved across 2^31, 2^32, 2^33, 2^63, 2^64 and 10^20; restated tempos and signatures). "
    "Exhaustive for the enumerated tempo range; sampling beyond it, so absence of a failing value "
    "outside the range is not established.",
    "Trusts CPython int/int true division (correctly rounded) as the 'nearest float' oracle "
    "(cross-checked with Fraction on a sample each run) and timedelta(microseconds=int) exactness.",
    "DESIGN.md section 4, C08")

reg("C01",
    "Hypothesis-generated tempo maps and whole charts checked against an exact-rational tempo-map oracle",
    "Exploration by generated-input search: thousands of constructed tempo maps (resolution 1..10^6, "
    "0.001..10^6 BPM, up to 24/120 segments, gaps of 1 tick to 10^6 ticks, all times < 10^6 s) and "
    "whole charts carrying every event kind at ticks on/next to/inside/far past the tempo changes are "
    "parsed through Chart.from_file; every reported timestamp (all event kinds, note sustain ends, both "
    "public queries) is compared with an exact Fraction model under the stated tolerance. Sampling, "
    "not proof: a rounding error confined to maps the generator does not reach would be missed.",
    "Exact model is the harness' own Fraction arithmetic; tolerance 0.5 us + 1 ns float slack per "
    "segment traversed (derivation in DESIGN.md section 3).",
    "DESIGN.md section 4, C01")

reg("C12",
    "Hypothesis-generated extreme tempo maps and multi-track charts checked against a pure order relation (metamorphic: tick order => time order)",
    "Exploration by generated-input search: tempo maps biased to extreme accelerations, resolution 1 and "
    "10^6 and sub-microsecond ticks; full sweeps T-3..T+3 around every tempo change, runs of 40 "
    "consecutive ticks and random ticks are queried through both public queries; whole charts with "
    ">= 2 tracks merge every (tick, timestamp) pair of every event kind plus the query. Oracle is the "
    "order relation itself (non-decreasing, equal ticks equal times, end >= start, strict when a tick "
    "lasts >= 2 us). Sampling of the map space, complete only for the tick sweeps of each sampled map.",
    "No arithmetic model is trusted here; only the comparison of reported values. Times < 10^6 s.",
    "DESIGN.md section 4, C12")

reg("C11",
    "per-map complete enumeration of hints x generated ticks, Hypothesis-drawn permutations of section bodies, and a rule-based state machine over event histories, against a brute-force governing-index oracle and the un-hinted query",
    "Exploration by generated-input search: for every generated tempo map all hints 0..len are tried "
    "for each interesting tick (complete per map) against a brute-force governing index; whole charts "
    "are parsed with sorted, partially sorted and shuffled bodies and a stateful machine grows "
    "sections event by event (the hint used for an event is the history before it); every stored "
    "timestamp must equal the un-hinted query or the parse must raise ValueError. A further part parses "
    "dense charts (an event of every kind on every tick of a window around / behind the last tempo changes, "
    "mostly over round 'musical' tempo maps with exact half-microsecond times) against the same relation.",
    "The un-hinted query itself is checked against the exact model in C01; here it is the reference.",
    "DESIGN.md section 4, C11")

reg("C02",
    "exhaustive lane-subset/position/flag table + Hypothesis-generated instrument sections against a grouping model",
    "Exploration by generated-input search: a complete table (all 32 lane combinations x position x gap "
    "x flags) every run plus Hypothesis sections (up to 30/200 ticks, gaps incl. 1, shuffled lane order, "
    "flags between lane lines, S/E lines interleaved anywhere) parsed with Chart.from_file and compared "
    "with an independent grouping model (sorted distinct ticks, 5-bit lane tuple). The section under test "
    "stands in a chart with neighbours that must not matter: other instrument sections (cut-down copies, a "
    "fuller sibling difficulty), well-known global events at its own ticks, inert lines on its own ticks, "
    "[Song] extras, time signatures, anchors, blank padding, tick offsets across machine widths.",
    "Generators stay inside the documented well-formed domain (open alone/first, sorted N lines, no forced first note).",
    "DESIGN.md section 4, C02")

reg("C03",
    "exhaustive lane x length x flag table + Hypothesis tracks over multi-segment tempo maps against a sustain model and the exact tempo oracle",
    "Exploration by generated-input search: the complete table of 4100 lane/length/flag patterns (flag "
    "lines with non-zero length fields) every run, and Hypothesis tracks whose sustains end inside later "
    "tempo segments / on tempo ticks, empty tracks and tracks whose longest-ending note is not last; "
    "sustain, longest_sustain, end_tick, end_timestamp (== query and within C01 tolerance of exact) and "
    "last_note_end_timestamp are compared with the model.",
    "As C02; exact-time comparison uses the C01 tolerance.",
    "DESIGN.md section 4, C03")

reg("C04",
    "per-resolution complete decision table (de Bruijn sequence over all 32x32 note pairs x distances x flags) + Hypothesis tracks against the natural-HOPO rule",
    "Exploration by generated-input search, exhaustive per enumerated resolution: for each of 21 (quick) / "
    "221 (thorough) resolutions every ordered pair of the 32 lane combinations at distances "
    "thr-1/thr/thr+1/1/2thr+1/10res with every (tap, forced) combination, with and without sustains that "
    "end before / overlap the next note, is parsed and compared with the rule; Hypothesis adds random resolutions up to 10^6, random gaps around the threshold, random flags "
    "and positions. Resolutions not enumerated are only sampled.",
    "threshold oracle (2*res+3)//6; forced flag never on the first note.",
    "DESIGN.md section 4, C04")

reg("C05",
    "bounded-exhaustive small scope (all <=2-phrase lists x note subsets) + Hypothesis relation-built phrase lists against brute-force half-open membership",
    "Exploration by generated-input search: all lists of <= 2 phrases (start 0..6, len 0..4, tied starts in "
    "both orders) x note subsets of ticks 0..7 (all 256 in thorough), sampled 3-phrase lists, and "
    "Hypothesis lists of <= 8 phrases built from relations (adjacent/nested/overlapping/zero-length/"
    "identical start) with notes on start-1/start/end-1/end; membership and index are compared with a "
    "brute-force first-covering-phrase oracle.",
    "Phrases ordered by start tick, notes strictly increasing (the property's quantifier).",
    "DESIGN.md section 4, C05")

reg("C06",
    "Hypothesis-generated charts under metamorphic relations (section permutation, CRLF/BOM variants, unknown-section insertion, required-section removal) plus model conformance and captured log records; all 40 headers enumerated",
    "Exploration by generated-input search: every single header and all 40 together each run; Hypothesis "
    "charts with up to 5/10 tracks, marker lines first and last in every section, a drawn section "
    "permutation, LF/CRLF through StringIO and real files, BOM through from_filepath, 0..3 unknown "
    "sections with arbitrary names/bodies, and each required section removed. Oracles: model "
    "conformance, equality + observation equality, exact multiset of log records, ValueError.",
    "Header table hard-coded in the harness; scratch files under /verif/.work (removed per case).",
    "DESIGN.md section 4, C06")

reg("C13",
    "Hypothesis-generated charts x generated selections and section replacements under a selection/non-interference relation against the unrestricted parse",
    "Exploration by generated-input search: charts with 0..8/16 of the 40 tracks; selections None, [], "
    "subsets, supersets, absent pairs, duplicates, list or tuple; one section replaced by another "
    "track's body, garbage, an invalid body or nothing. Oracle: exact key set, per-track equality and "
    "observation equality with the unrestricted parse, common parts unchanged, unselected invalid "
    "sections never make the parse fail.",
    "Relation is differential against the same library's unrestricted parse (conformance of that "
    "parse with the model is C06's subject).",
    "DESIGN.md section 4, C13")

reg("C14",
    "Hypothesis insertion/movement of certified-unparsable lines (metamorphic) with log-record conservation, datum-level conservation and kind-order permutation, and differential ownership of generated strings against reference recognisers",
    "Exploration by generated-input search: garbage certified by hand-written reference recognisers is "
    "inserted into and moved within sync/events/instrument sections (first, last, inside tick groups, "
    "runs); observation must not change and the multiset of 'unparsable line' records must equal the "
    "garbage; parse_data_from_chart_lines conserves lines and is independent of kind order; >=20k "
    "(quick) grammar lines, near-misses and token soup are claimed by at most one sync and one "
    "instrument kind, agreeing with the reference grammar.",
    "Garbage alphabet is ASCII (+ a few letters); the reference recognisers are the harness' own.",
    "DESIGN.md section 4, C14")

reg("C07",
    "differential testing of the shipped N/S/E recognisers against hand-written reference recognisers over a bounded-exhaustive slot product, Hypothesis grammar positives, edit mutations and whole sections",
    "Exploration by generated-input search: the complete 9-slot corruption product (~7*10^5 strings) and "
    "an E-specific product every run; Hypothesis members with digit strings up to 300/1000 digits, all "
    "indices, padding and non-ASCII words; 1-2 character edits of members, lines of the other kinds and "
    "token soup; padded/zero-prefixed sections with interleaved non-members through Chart.from_file "
    "(exactly the members' events, one warning per non-member). A recogniser bug confined to a string "
    "shape none of the generators produce would be missed.",
    "Reference recognisers are index-arithmetic scanners in cpverif/model.py; alphabet restricted as "
    "stated in the assumptions; inner-tab / empty E payloads not asserted.",
    "DESIGN.md section 4, C07")

reg("C09",
    "Hypothesis fragment-assembled event texts and sections against a reference classifier (differential), at section and datum level",
    "Exploration by generated-input search: texts assembled from keyword/quote/blank/bracket/non-ASCII "
    "fragments so that 'lyric'/'section' occur as prefix, infix and suffix with and without the blank; "
    "sections of up to 30/120 padded lines in sorted order over multi-tempo maps or arbitrary order "
    "over one tempo; each list must equal the classified (tick, value) subsequence in file order; "
    "silent texts (inner quote, no keyword) may land in at most one list.",
    "Reference classifier is three lines of string code in cpverif/model.py.",
    "DESIGN.md section 4, C09")

reg("C10",
    "Hypothesis-generated [Song] bodies against a reference decoder and defaults table, plus metamorphic delete/rewrite/single-line non-interference relations; every single field enumerated",
    "Exploration by generated-input search: subsets of the 23 optional fields in drawn line orders with "
    "padding and adversarial values (quotes, '=', field names, whole foreign lines, blanks, non-ASCII, "
    "30-digit integers), through Metadata.from_chart_lines and Chart.from_file; the empty set, full "
    "set and each single field enumerated every run; delete / rewrite / one-line relations check that "
    "no field's line influences another. A further part slides the [Song] section character by character "
    "across multiples of the usual buffer sizes inside a large file (position independence).",
    "Defaults table hard-coded from the documentation in cpverif/model.py; values written quoted.",
    "DESIGN.md section 4, C10")

reg("C15",
    "fault enumeration: every single corruption of the sync data at every position of Hypothesis-generated charts, with an outcome oracle (ValueError / zero-tempo governance rule)",
    "Fault enumeration by generated-input search: for each generated well-formed chart (1..12/40 tempo "
    "events plus all other event kinds) every listed corruption is applied at every position: drop/shift "
    "the tick-0 tempo and signature, duplicate tempo k's tick, swap tempo lines (all adjacent + a far "
    "pair), zero tempo 'B 0'/'B 000' at k, Resolution 0/00, empty sync body, zero tempo after "
    "everything; plus direct BPMEvents/SyncTrack construction from untrustworthy parts and negative "
    "tick queries. Complete over positions per chart; charts are sampled.",
    "The zero-tempo-last rule ('raises iff something is governed by it') is computed from the spec by "
    "the harness.",
    "DESIGN.md section 4, C15", category="fault_enumeration")

reg("C16",
    "Hypothesis charts x symbolic call arguments in all five overload forms against a reference notes-per-second and a tick/time metamorphic relation",
    "Exploration by generated-input search: charts with present, note-less and absent tracks; ~12 calls "
    "per chart whose bounds are drawn relative to the notes (exactly on a note start / sustain end, "
    "+-1 tick / +-1 us, equal, reversed, outside); result compared with count-in-closed-interval over "
    "length (isclose 1e-12), error outcomes with ValueError, tick-bounded call with its time-bounded twin; "
    "the time a tick bound stands for must agree with the exact rational tempo model of the written map "
    "(short and LONG maps, bounds on / around the last tempo changes and on anchors).",
    "Note timestamps used by the reference are the parsed chart's (their correctness is C01); tick bounds are checked against the exact model with C01's tolerance.",
    "DESIGN.md section 4, C16")

reg("C18",
    "Hypothesis mutation sequences and fragment assembly plus coverage-guided fuzzing (atheris/libFuzzer, structure-aware decoder and raw text with dictionary) with an exception-class / render oracle inside the target",
    "Exploration by generated-input search: 1..8/16 line- and character-level edits of rendered well-formed "
    "charts with a dictionary of corner-value fragments, texts assembled from arbitrary fragments, and "
    "atheris campaigns (4 processes x 12k runs quick, 16 x 300k thorough; structured and raw decoders, "
    "empty and seeded corpora, chartparse instrumented for coverage). Any exception other than "
    "ValueError / RegexNotMatchError / MissingRequiredField, or a failing str()/repr() of a returned "
    "chart or event, is a violation; crashes are delta-debugged into replay files.",
    "Inputs outside the property's numeric bounds (9+ digit runs, TS exponent >= 64) are skipped and "
    "counted. libFuzzer campaigns are only approximately reproducible from the seed; the saved input "
    "is the reproducible unit. If atheris cannot be imported the part is skipped and says so in evidence.",
    "DESIGN.md section 4, C18")

reg("C19",
    "Hypothesis rule-based state machine over read-only operation histories with a full-observation and twin-equality invariant after every step",
    "Exploration by stateful generated-input search: machines of up to 25/50 read-only operations (rate "
    "queries in every form incl. failing ones and absent tracks, subscripting all 10 instruments, both "
    "time queries with valid/invalid hints and negative ticks, str/repr, ==/!=, hash, derived "
    "attributes, bpm_events iteration/slicing, attempted attribute assignment) on a generated chart; "
    "after every step chart == twin (checked before observing) and the full observation incl. the key "
    "structure of instrument_tracks equals that of an untouched third parse; histories shrink as one "
    "value; a fixed deterministic history covers every operation kind each run.",
    "Observation walks public attributes only; the twin is never read except by ==/!=.",
    "DESIGN.md section 4, C19")

reg("C17",
    "Hypothesis rule-based state machine over parse histories executed in fresh interpreters, with OS-scheduled and cooperatively scheduled (sys.settrace, Hypothesis-drawn schedule) thread rules, differential against fresh-interpreter baselines",
    "Exploration by stateful generated-input search: histories over corpora of related chart texts "
    "(variants that collide in the process-wide memo tables, invalid variants of each error class) "
    "with sequential parses, selections and 2-4 concurrent parses under a 1 us switch interval or a "
    "line-granular cooperative scheduler driven by a drawn schedule; every result must equal the "
    "parse of the same text alone in a fresh interpreter (two PYTHONHASHSEEDs), repeated parses must "
    "be ==, and must iterate / render identically (iteration order of instrument_tracks, str(), repr()) under different PYTHONHASHSEEDs. 300 histories quick, 2400 thorough. Schedules are sampled at line granularity only. "
    "Fixed histories add numeric twins, over-long numbers, long tempo maps and clients that release their charts between parses.",
    "Workers are python -S subprocesses; a worker timeout is inconclusive (exit 2), never a violation; "
    "failing histories are reduced greedily instead of with the Hypothesis shrinker.",
    "DESIGN.md section 4, C17")

reg("C20",
    "exhaustive enumeration of first imports and ordered pairs plus Hypothesis-drawn import permutations, each in a fresh interpreter, against the reference order's public-name and object-identity dump",
    "Exploration by generated programs: all 12 first imports and all 132 ordered pairs (exhaustive every "
    "run), README-style from-imports, and 48/4000 sampled longer permutations, one fresh interpreter "
    "each; every import must succeed and the dump of public names (type, module, qualname) and of "
    "the identity partition must equal the reference order's.",
    "Client programs are reduced to import orders; the remaining modules are imported canonically "
    "after the program's prefix.",
    "DESIGN.md section 4, C20")


def build():
    checks = []
    for pid in sorted(CHECKS):
        technique, text, note, ref = CHECKS[pid]
        checks.append({
            "property_id": pid,
            "quick_cmd": f"./vcheck {pid} --tier quick",
            "thorough_cmd": f"./vcheck {pid} --tier thorough",
            "evidence_file": f"evidence/{pid}.json",
            "replay_cmd_template": f"./vcheck {pid} --replay {{path}}",
            "engine": "cpverif",
            "level_claimed": {"category": CATEGORY[pid], "text": text, "design_ref": ref},
            "level_note": note,
            "technique": technique,
        })
    all_ids = [f"C{i:02d}" for i in range(1, 21)]
    na = []
    for pid in all_ids:
        if pid in CHECKS:
            continue
        na.append({"property_id": pid,
                   "reason": NOT_APPLICABLE.get(pid, "check not registered yet (work in progress; "
                                                     "the technique applies, see DESIGN.md)")})
    manifest = {
        "version": 1,
        "setup_cmd": "./setup.sh",
        "hooks": {
            "guard": "CHARTPARSE_VERIF",
            "enable": "no hooks exist: checks import /repo's working tree unchanged "
                      "(sys.path.insert(0, '/repo')); the guard name is reserved and unused",
            "baseline_off_cmd": "cd /repo && /venv/bin/python -m pytest -ra -q -p no:cacheprovider "
                                "--timeout=900 --continue-on-collection-errors",
            "source_commits": [],
            "add_only": True,
        },
        "engines": [{
            "name": "cpverif",
            "path": "cpverif/",
            "serves_properties": sorted(CHECKS),
            "kind_free_text": "Python harness: Hypothesis strategies and rule-based state machines, "
                              "bounded-exhaustive enumerators, fault enumerators and an atheris fuzz "
                              "target, each with an explicit oracle; 16-way sharded runner with "
                              "replay files and evidence writer",
        }],
        "checks": checks,
        "not_applicable": na,
        "notes": "Every check: ./vcheck <ID> [--tier quick|thorough] [--seed N] [--replay FILE]; honours "
                 "VERIF_SEED / VERIF_TIER; CPV_REPO overrides the tree under test (default /repo). "
                 "Known findings: KNOWN_FINDINGS.txt. Seeded breakages and which checks catch them: "
                 "seeded/ and DESIGN.md.",
    }
    return manifest


def main():
    manifest = build()
    path = os.path.join(VERIF, "MANIFEST.json")
    with open(path, "w", encoding="utf-8") as f:
        json.dump(manifest, f, indent=1)
        f.write("\n")
    sys.path.insert(0, os.path.join(VERIF, ".deps"))
    try:
        import jsonschema
    except ImportError:
        print("jsonschema unavailable; manifest written but not validated")
        return
    with open("/root/.vp/MANIFEST.schema.json") as f:
        schema = json.load(f)
    jsonschema.validate(manifest, schema)
    print(f"MANIFEST.json written and valid: {len(manifest['checks'])} checks, "
          f"{len(manifest['not_applicable'])} not yet claimed")
    # validate evidence files present
    with open("/root/.vp/EVIDENCE.schema.json") as f:
        eschema = json.load(f)
    for c in manifest["checks"]:
        p = os.path.join(VERIF, c["evidence_file"])
        if os.path.exists(p):
            with open(p) as f:
                jsonschema.validate(json.load(f), eschema)
        else:
            print("  missing evidence:", c["evidence_file"])


if __name__ == "__main__":
    main()
