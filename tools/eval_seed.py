#!/venv/bin/python
"""Evaluate a seeded breakage produced by a sub-agent.

    tools/eval_seed.py C05 /tmp/seed/C05/_seed [--name C05-a] [--tier quick] [--all-checks] [--keep]

1. exports /repo HEAD into a scratch copy under /tmp, applies patch.diff there;
2. runs the repository's own suite on the copy (must pass);
3. runs demo.py against the copy (must exit 1) and against /repo (must exit 0);
4. runs the targeted check (CPV_REPO=<copy>) and optionally every other check;
5. when 2+3 are confirmed, stores patch.diff, demo.py and meta.json (extended with what was run and
   the outcome) under /verif/seeded/<name>/.  The scratch copy is removed.
"""
from __future__ import annotations

import argparse
import json
import os
import shutil
import subprocess
import sys
import tempfile
import time

VERIF = os.path.dirname(os.path.dirname(os.path.abspath(__file__)))
PY = "/venv/bin/python"


def sh(cmd, **kw):
    return subprocess.run(cmd, capture_output=True, text=True, **kw)


def main():
    ap = argparse.ArgumentParser()
    ap.add_argument("prop")
    ap.add_argument("seed_dir")
    ap.add_argument("--name", default=None)
    ap.add_argument("--tier", default="quick")
    ap.add_argument("--all-checks", action="store_true")
    ap.add_argument("--keep", action="store_true")
    ap.add_argument("--seed", default="1")
    args = ap.parse_args()
    name = args.name or args.prop
    patch = os.path.join(args.seed_dir, "patch.diff")
    demo = os.path.join(args.seed_dir, "demo.py")
    meta_p = os.path.join(args.seed_dir, "meta.json")
    for f in (patch, demo, meta_p):
        if not os.path.exists(f) or os.path.getsize(f) == 0:
            print(f"MISSING {f}")
            return 2
    tmp = tempfile.mkdtemp(prefix=f"evalseed_{name}_", dir="/tmp")
    copy = os.path.join(tmp, "repo")
    os.makedirs(copy)
    try:
        ar = subprocess.run(f"git -C /repo archive HEAD | tar -x -C {copy}", shell=True)
        if ar.returncode:
            print("archive failed")
            return 2
        ap_ = sh(["git", "apply", "--whitespace=nowarn", "-p1", patch], cwd=copy)
        if ap_.returncode:
            # git apply outside a repository: fall back to patch(1)
            ap_ = sh(["patch", "-p1", "-i", patch], cwd=copy)
        if ap_.returncode:
            print("PATCH DOES NOT APPLY:", ap_.stderr[-400:], ap_.stdout[-400:])
            return 2
        env = dict(os.environ, PYTHONDONTWRITEBYTECODE="1")
        t = sh([PY, "-m", "pytest", "-q", "-p", "no:cacheprovider", "--deselect",
                "tests/test_instrument.py::TestNoteEvent::TestEndTick::test_wrapper"], cwd=copy, env=env)
        suite_tail = (t.stdout.strip().splitlines() or [""])[-1]
        suite_ok = t.returncode == 0
        d1 = sh([PY, demo, copy], env=env, timeout=600)
        d0 = sh([PY, demo, "/repo"], env=env, timeout=600)
        print(f"suite on patched copy: {'PASS' if suite_ok else 'FAIL'} [{suite_tail}]")
        print(f"demo on patched copy: exit {d1.returncode} (want 1); demo on /repo: exit {d0.returncode} (want 0)")
        if d1.returncode != 1:
            print("  demo output (patched):", (d1.stdout + d1.stderr)[-400:])
        if d0.returncode != 0:
            print("  demo output (/repo):", (d0.stdout + d0.stderr)[-400:])
        confirmed = suite_ok and d1.returncode == 1 and d0.returncode == 0
        props = [args.prop]
        if args.all_checks:
            props += [f"C{i:02d}" for i in range(1, 21) if f"C{i:02d}" != args.prop]
        outcomes = {}
        for p in props:
            t0 = time.time()
            c = sh([os.path.join(VERIF, "vcheck"), p, "--tier", args.tier, "--no-evidence"], cwd=VERIF,
                   env=dict(env, CPV_REPO=copy, VERIF_SEED=args.seed))
            detail = [l.strip() for l in c.stdout.splitlines()
                      if l.startswith("  ") and "part " not in l and ":" in l]
            outcomes[p] = {"exit": c.returncode, "wall_s": round(time.time() - t0, 1),
                           "detail": (detail or [""])[0][:300]}
            tag = {0: "quiet", 1: "VIOLATION", 2: "harness-error"}.get(c.returncode, str(c.returncode))
            print(f"  check {p} ({args.tier}): {tag} in {outcomes[p]['wall_s']}s  {outcomes[p]['detail'][:200]}")
            if c.returncode == 2:
                print("    stderr:", c.stderr[-500:])
        if confirmed:
            dest = os.path.join(VERIF, "seeded", name)
            os.makedirs(dest, exist_ok=True)
            if os.path.abspath(args.seed_dir) != os.path.abspath(dest):    # re-evaluation of a stored seed
                shutil.copy(patch, os.path.join(dest, "patch.diff"))
                shutil.copy(demo, os.path.join(dest, "demo.py"))
            with open(meta_p) as f:
                try:
                    meta = json.load(f)
                except Exception:  # noqa: BLE001
                    meta = {"raw": open(meta_p).read()}
            meta["property"] = args.prop
            meta["confirmed"] = {
                "suite_on_patched_copy": suite_tail,
                "demo_exit_patched": d1.returncode, "demo_exit_unmodified": d0.returncode,
                "ran": [f"git archive HEAD of /repo -> scratch copy; git apply patch.diff",
                        "pytest -q --deselect TestEndTick::test_wrapper (in the copy)",
                        "demo.py <copy> ; demo.py /repo",
                        f"CPV_REPO=<copy> VERIF_SEED={args.seed} ./vcheck <ID> --tier {args.tier} --no-evidence"],
            }
            old = {}
            mp = os.path.join(dest, "meta.json")
            if os.path.exists(mp):
                try:
                    old = json.load(open(mp)).get("checks", {})
                except Exception:  # noqa: BLE001
                    old = {}
            old.update({f"{p}@{args.tier}": v for p, v in outcomes.items()})
            meta["checks"] = old
            with open(mp, "w") as f:
                json.dump(meta, f, indent=1)
                f.write("\n")
            print(f"stored under seeded/{name}/")
        else:
            print("NOT CONFIRMED (not stored)")
        return 0 if confirmed and outcomes[args.prop]["exit"] == 1 else 1
    finally:
        if not args.keep:
            shutil.rmtree(tmp, ignore_errors=True)


if __name__ == "__main__":
    sys.exit(main())
