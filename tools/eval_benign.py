#!/venv/bin/python
"""Run every registered quick check against a behaviour-preserving refactor (false-alarm test).

    tools/eval_benign.py <name> <refactor.diff> [<description.txt>] [--props C01,C02]

Applies the diff to a scratch export of /repo HEAD under /tmp, runs the repository's own suite, then
every quick check with CPV_REPO=<copy>.  Every check must stay quiet (exit 0).  Results are stored
under /verif/benign/<name>/ (diff, description, outcomes.json).  The scratch copy is removed."""
from __future__ import annotations

import argparse
import json
import os
import shutil
import subprocess
import sys
import tempfile
import time

VERIF = os.path.dirname(os.path.dirname(os.path.abspath(__file__)))
PY = "/venv/bin/python"


def main():
    ap = argparse.ArgumentParser()
    ap.add_argument("name")
    ap.add_argument("diff")
    ap.add_argument("desc", nargs="?")
    ap.add_argument("--props", default=None)
    ap.add_argument("--seed", default="1")
    args = ap.parse_args()
    tmp = tempfile.mkdtemp(prefix=f"evalbenign_{args.name}_", dir="/tmp")
    copy = os.path.join(tmp, "repo")
    os.makedirs(copy)
    try:
        subprocess.run(f"git -C /repo archive HEAD | tar -x -C {copy}", shell=True, check=True)
        p = subprocess.run(["patch", "-s", "-p1", "-i", os.path.abspath(args.diff)], cwd=copy,
                           capture_output=True, text=True)
        if p.returncode:
            print("PATCH DOES NOT APPLY", p.stdout[-300:], p.stderr[-300:])
            return 2
        env = dict(os.environ, PYTHONDONTWRITEBYTECODE="1")
        t = subprocess.run([PY, "-m", "pytest", "-q", "-p", "no:cacheprovider", "--deselect",
                            "tests/test_instrument.py::TestNoteEvent::TestEndTick::test_wrapper"],
                           cwd=copy, env=env, capture_output=True, text=True)
        suite = (t.stdout.strip().splitlines() or [""])[-1]
        print(f"suite: {'PASS' if t.returncode == 0 else 'FAIL'} [{suite}]")
        props = args.props.split(",") if args.props else [f"C{i:02d}" for i in range(1, 21)]
        outcomes = {}
        bad = 0
        for pr in props:
            t0 = time.time()
            c = subprocess.run([os.path.join(VERIF, "vcheck"), pr, "--tier", "quick", "--no-evidence"],
                               cwd=VERIF, env=dict(env, CPV_REPO=copy, VERIF_SEED=args.seed),
                               capture_output=True, text=True)
            detail = [l.strip() for l in c.stdout.splitlines() if l.startswith("  ") and "part " not in l and ":" in l]
            outcomes[pr] = {"exit": c.returncode, "wall_s": round(time.time() - t0, 1),
                            "detail": (detail or [""])[0][:400]}
            if c.returncode != 0:
                bad += 1
                print(f"  {pr}: exit {c.returncode}  {outcomes[pr]['detail'][:300]}")
                if c.returncode == 2:
                    print("    ", c.stderr[-600:])
        print(f"{len(props) - bad}/{len(props)} checks quiet")
        dest = os.path.join(VERIF, "benign", args.name)
        os.makedirs(dest, exist_ok=True)
        shutil.copy(args.diff, os.path.join(dest, "refactor.diff"))
        if args.desc and os.path.exists(args.desc):
            shutil.copy(args.desc, os.path.join(dest, "description.txt"))
        with open(os.path.join(dest, "outcomes.json"), "w") as f:
            json.dump({"suite": suite, "seed": args.seed, "checks": outcomes}, f, indent=1)
            f.write("\n")
        return 0 if bad == 0 and t.returncode == 0 else 1
    finally:
        shutil.rmtree(tmp, ignore_errors=True)


if __name__ == "__main__":
    sys.exit(main())
