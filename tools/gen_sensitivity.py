#!/venv/bin/python
"""Writes section 10 of DESIGN.md ("Sensitivity results") from mutants/results/*.json and
seeded/*/meta.json, between the markers <!-- SENSITIVITY:BEGIN --> and <!-- SENSITIVITY:END -->."""
from __future__ import annotations

import glob
import json
import os
import sys

VERIF = os.path.dirname(os.path.dirname(os.path.abspath(__file__)))
sys.path.insert(0, os.path.join(VERIF, "mutants"))
from mutant_defs import MUTANTS  # noqa: E402


def main():
    results = {}
    for fn in sorted(glob.glob(os.path.join(VERIF, "mutants", "results", "*.json")), key=os.path.getmtime):
        for r in json.load(open(fn)):
            if "error" not in r:
                results[r["id"]] = r
    lines = []
    lines.append("### 10.1 Hand-written mutants (`mutants/run_mutants.py`, quick tier, VERIF_SEED=1)\n")
    lines.append("Each mutant is a textual edit applied to a scratch copy; 'suite' says whether the repository's own "
                 "251 tests still pass on it (mutants the suite already notices are kept only as sanity checks).\n")
    lines.append("| Mutant | Property | What it models | Suite passes | Check outcome (first report) |")
    lines.append("|---|---|---|---|---|")
    killed = total = 0
    for m in MUTANTS:
        r = results.get(m["id"])
        if r is None:
            lines.append(f"| `{m['id']}` | {m['prop']} | {m['note']} | ? | not run |")
            continue
        for prop, c in r["checks"].items():
            total += 1
            if m.get("expect") == "green":
                verdict = "quiet, as required (benign change)" if c["exit"] == 0 else "FALSE ALARM"
                killed += c["exit"] == 0
            else:
                verdict = {1: "caught", 0: "MISSED", 2: "harness error"}.get(c["exit"], str(c["exit"]))
                killed += c["exit"] == 1
            detail = c["detail"].split(":")[0] if c["detail"] else ""
            lines.append(f"| `{m['id']}` | {prop} | {m['note']} | {'yes' if r['suite_passes'] else 'no'} | "
                         f"{verdict}{' — `' + detail + '`' if detail else ''} |")
    lines.append(f"\n{killed}/{total} as expected.\n")
    lines.append("### 10.2 Independently seeded changes (`seeded/`, produced by sub-agents that saw only the property text)\n")
    lines.append("Every change below compiles, passes the repository's 251 tests, fails its own demonstration and "
                 "passes it on the unmodified tree (confirmed with `tools/eval_seed.py` in a scratch copy).\n")
    lines.append("| Seed | Property | Change | Needs to manifest | Checks run against it |")
    lines.append("|---|---|---|---|---|")
    for d in sorted(glob.glob(os.path.join(VERIF, "seeded", "*"))):
        mp = os.path.join(d, "meta.json")
        if not os.path.exists(mp):
            continue
        m = json.load(open(mp))
        checks = []
        for k, v in sorted(m.get("checks", {}).items()):
            tag = {1: "caught", 0: "quiet", 2: "harness error"}.get(v["exit"], str(v["exit"]))
            det = v["detail"].split(":")[0] if v.get("detail") else ""
            checks.append(f"{k}: {tag}" + (f" (`{det}`)" if det and v["exit"] == 1 else ""))
        summ = " ".join(str(m.get("summary", "")).split())[:170].replace("|", "/")
        need = " ".join(str(m.get("needs_to_manifest", "")).split())[:150].replace("|", "/")
        lines.append(f"| `{os.path.basename(d)}` | {m.get('property')} | {summ} | {need} | {'; '.join(checks)} |")
    # regression of the whole record at other seeds (tools/recheck_seeds.py)
    for fn in sorted(glob.glob(os.path.join(VERIF, "seeded", "RECHECK_seed*.json"))):
        if fn.endswith("_partial.json"):
            continue
        r = json.load(open(fn))
        tot = sum(len(v.get("checks", {})) for v in r.values())
        caught = sum(1 for v in r.values() for c in v.get("checks", {}).values() if c.get("exit") == 1)
        missed = [f"{k}/{p}" for k, v in sorted(r.items()) for p, c in v.get("checks", {}).items() if c.get("exit") != 1]
        lines.append(f"\n`{os.path.basename(fn)}`: every stored change re-run against the current checks "
                     f"({len(r)} changes, {tot} check runs): {caught} caught" + (f"; not caught: {', '.join(missed)}" if missed else "") + ".")
    body = "\n".join(lines) + "\n"
    p = os.path.join(VERIF, "DESIGN.md")
    s = open(p).read()
    b, e = "<!-- SENSITIVITY:BEGIN -->", "<!-- SENSITIVITY:END -->"
    if b not in s:
        s = s.rstrip("\n") + ("\n\n---------------------------------------------------------------------------------------------------\n\n"
                              "## 10. Sensitivity results: which checks catch which changes\n\n"
                              f"{b}\n{e}\n")
    pre, rest = s.split(b, 1)
    _, post = rest.split(e, 1)
    s = pre + b + "\n" + body + e + post
    open(p, "w").write(s)
    print(f"wrote section 10: {total} mutant rows, {len(glob.glob(os.path.join(VERIF, 'seeded', '*')))} seeds")


if __name__ == "__main__":
    main()
