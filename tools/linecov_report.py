#!/venv/bin/python
"""Development aid: after `CPV_LINECOV=/tmp/cov ./vcheck Cxx ...` runs, list the executable lines of
chartparse/*.py that no check executed.   tools/linecov_report.py /tmp/cov"""
import ast, glob, json, os, sys
covdir = sys.argv[1]
repo = os.environ.get("CPV_REPO", "/repo")
hit = {}
for fn in glob.glob(os.path.join(covdir, "*.json")):
    for f, l in json.load(open(fn)):
        hit.setdefault(f, set()).add(l)
for path in sorted(glob.glob(os.path.join(repo, "chartparse", "*.py"))):
    base = os.path.basename(path)
    src = open(path).read()
    tree = ast.parse(src)
    lines = set()
    fnodes = []
    for fdef in ast.walk(tree):
        if isinstance(fdef, (ast.FunctionDef, ast.AsyncFunctionDef)):
            for sub in fdef.body:
                fnodes += list(ast.walk(sub))
    for node in fnodes:
        if isinstance(node, ast.stmt) and not isinstance(node, (ast.FunctionDef, ast.ClassDef, ast.AsyncFunctionDef)):
            # skip docstrings
            if isinstance(node, ast.Expr) and isinstance(getattr(node, "value", None), ast.Constant) and isinstance(node.value.value, str):
                continue
            lines.add(node.lineno)
    missed = sorted(lines - hit.get(base, set()))
    print(f"{base}: {len(lines) - len(missed)}/{len(lines)} statements executed; missed lines: {missed}")
