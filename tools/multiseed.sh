#!/bin/bash
# Runs every registered quick check at several seeds in fresh processes; prints one line per run.
# usage: tools/multiseed.sh "0 1 2 7 12345" [tier]
cd "$(dirname "$0")/.."
SEEDS=${1:-"0 1 2 7 12345"}
TIER=${2:-quick}
fail=0
for seed in $SEEDS; do
  for i in $(seq -w 1 20); do
    p=C$i
    start=$(date +%s)
    out=$(VERIF_SEED=$seed ./vcheck $p --tier $TIER --no-evidence 2>&1)
    rc=$?
    end=$(date +%s)
    echo "seed=$seed $p exit=$rc wall=$((end-start))s $(echo "$out" | grep -m1 "^C[0-9]")"
    if [ $rc -ne 0 ]; then fail=1; echo "$out" | tail -15; fi
  done
done
exit $fail
