#!/bin/bash
# Offline setup: make sure hypothesis is importable by /venv/bin/python and put the optional
# fuzzing/validation dependencies under /verif/.deps. Nothing is fetched from a network.
set -u
cd "$(dirname "$0")"
export PIP_NO_INDEX=1 PIP_DISABLE_PIP_VERSION_CHECK=1
WHEELS=/opt/veriftools/wheels
PY=/venv/bin/python
if ! $PY -c "import hypothesis" >/dev/null 2>&1; then
  /venv/bin/pip install --no-index --find-links "$WHEELS" hypothesis >/dev/null 2>&1 \
    || $PY -m pip install --no-index --find-links "$WHEELS" --target .deps hypothesis >/dev/null 2>&1
fi
mkdir -p .deps
if ! PYTHONPATH=.deps $PY -c "import atheris" >/dev/null 2>&1; then
  $PY -m pip install --no-index --find-links "$WHEELS" --target .deps atheris >/dev/null 2>&1 || true
fi
if ! PYTHONPATH=.deps $PY -c "import jsonschema" >/dev/null 2>&1; then
  $PY -m pip install --no-index --find-links "$WHEELS" --target .deps jsonschema >/dev/null 2>&1 || true
fi
$PY -c "import hypothesis; print('hypothesis', hypothesis.__version__)" || { echo "setup: hypothesis unavailable" >&2; exit 2; }
PYTHONPATH=.deps $PY -c "import atheris; print('atheris ok')" 2>/dev/null || echo "setup: atheris unavailable (C18 fuzz part will be skipped and reported)"
exit 0
